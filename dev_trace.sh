#!/bin/bash
# dev_trace.sh <prop> <seed> <fromseq> <toseq> [grep]
OUT=/tmp/gi
cat > $OUT/spec_t.json <<EOS
{"world":"w","property":"$1","tier":"quick","seed_from":$2,"seed_count":1,"out":"$OUT/out_t.jsonl","with_trace":true}
EOS
rm -f $OUT/out_t.jsonl
( cd $OUT && SIM_SPEC=$OUT/spec_t.json timeout 600 ./world.test -test.run '^TestSimWorld$' >/dev/null 2>&1 )
python3 - <<EOP
import json
d=json.loads(open('$OUT/out_t.jsonl').readline())
b=d['scenario']['body']
for i,v in enumerate(b['versions']): print('V',i,json.dumps(v['paths']))
for i,a in enumerate(b['actors']): print('A',i,json.dumps(a))
for e in d['history']:
    if e['seq']>=$3 and e['seq']<=$4: print(e['seq'], e['step'], e['t']/1e9, 'g%d'%e['g'], e['k'], e.get('a',''), '|', e.get('b',''), e.get('n',''), e.get('m',''), e.get('x',''))
for v in d.get('violations',[]): print(v['property'],v['clause'],v['detail'][:600])
EOP
