#!/bin/bash
# Builds the verification framework from files on disk only (offline) and
# warms the Go build cache for the patched runtime so that the first check is fast.
set -e
cd "$(dirname "$0")"
export GOFLAGS=-mod=mod GOPROXY=off GOSUMDB=off GOTOOLCHAIN=local
export PATH=/opt/veriftools/go1.26.8/bin:$PATH
mkdir -p bin evidence replays .cache
go build -o bin/goinst ./cmd/goinst
go build -o bin/verif ./cmd/verif
# warm-up: build every world binary once (non-race and race)
if [ "${VERIF_SKIP_WARM:-0}" != "1" ]; then
  bin/verif warm || exit 2
fi
echo "setup done"
