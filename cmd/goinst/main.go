// goinst instruments copies of mediamtx source files with scheduling points
// for the simrt cooperative scheduler and writes a `go build -overlay` file.
// Nothing under the repository is modified.
//
// usage: goinst -repo /repo -cfg world.json -out <scratch dir>
package main

import (
	"bytes"
	"encoding/json"
	"flag"
	"fmt"
	"go/ast"
	"go/token"
	"go/types"
	"os"
	"path/filepath"
	"sort"
	"strings"

	"golang.org/x/tools/go/packages"
)

type worldCfg struct {
	// packages (relative import dirs, e.g. "internal/core") whose non-test files are instrumented
	Packages []string `json:"packages"`
	// files (relative to repo) of instrumented packages that are left untouched
	SkipFiles []string `json:"skip_files"`
	// repo-relative path -> replacement source (path relative to /verif); instrumented if its package is listed
	Replace map[string]string `json:"replace"`
	// repo-relative path -> file added as is (never instrumented)
	Raw map[string]string `json:"raw"`
	// directories (repo-relative) whose *_test.go files are replaced by an empty file
	EmptyTests []string `json:"empty_tests"`
	// directories whose every existing .go file not in replace is emptied (stub packages)
	EmptyDirs []string `json:"empty_dirs"`
	// atomic fields that are pure statistics (no yield)
	NoYieldAtomics []string `json:"no_yield_atomics"`
	// type names (pkgpath.Name) whose methods get pre/post yields: "Pull" style blocking calls
	BlockingMethods map[string]string `json:"blocking_methods"`
	// import path -> replacement, applied textually to the non-test files of the instrumented packages
	ImportRewrite map[string]string `json:"import_rewrite"`
	// wrap the Transport of every net/http.Client literal in simrt.HTTPTransport (simulated authority)
	HTTPClientHook bool `json:"http_client_hook"`
	// add a run-unique sub-millisecond amount to the duration of every timer and ticker created by the
	// instrumented packages, so that no two of them share a deadline (the order in which the Go runtime
	// fires timers with equal deadlines is not decided by the simulation)
	TimerJitter bool `json:"timer_jitter"`
}

const simrtPath = "github.com/bluenviron/mediamtx/internal/zzsim/simrt"
const modPath = "github.com/bluenviron/mediamtx"

type edit struct {
	pos, end int
	text     string
	seq      int
}

type fileInst struct {
	fset    *token.FileSet
	file    *ast.File
	src     []byte
	rel     string
	info    *types.Info
	edits   []edit
	errs    []string
	cfg     *worldCfg
	parents []ast.Node
	nsites  int
	tmpN    int
}

func main() {
	repo := flag.String("repo", "/repo", "repository root")
	cfgPath := flag.String("cfg", "", "world config json")
	out := flag.String("out", "", "output directory")
	verif := flag.String("verif", "/verif", "verif root")
	goroot := flag.String("goroot", "/opt/veriftools/go1.26.8", "GOROOT of the toolchain to patch")
	flag.Parse()

	os.Setenv("PATH", filepath.Join(*goroot, "bin")+":"+os.Getenv("PATH"))
	os.Setenv("GOFLAGS", "-mod=mod")
	os.Setenv("GOPROXY", "off")
	os.Setenv("GOSUMDB", "off")
	os.Setenv("GOTOOLCHAIN", "local")
	var cfg worldCfg
	b, err := os.ReadFile(*cfgPath)
	must(err)
	must(json.Unmarshal(b, &cfg))
	must(os.MkdirAll(*out, 0o755))

	overlay := map[string]string{} // abs target -> abs source file on disk
	content := map[string][]byte{} // abs target -> content (for go/packages)

	put := func(target string, data []byte) {
		name := strings.ReplaceAll(strings.TrimPrefix(target, "/"), "/", "__")
		p := filepath.Join(*out, "files", name)
		must(os.MkdirAll(filepath.Dir(p), 0o755))
		must(os.WriteFile(p, data, 0o644))
		overlay[target] = p
		content[target] = data
	}

	// constant stub embeds
	put(filepath.Join(*repo, "internal/core/VERSION"), []byte("v0.0.0-verif\n"))
	put(filepath.Join(*repo, "internal/servers/hls/hls.min.js"), []byte("/* stub */\n"))

	// runtime patch
	sel, err := os.ReadFile(filepath.Join(*goroot, "src/runtime/select.go"))
	must(err)
	needle := []byte("j := cheaprandn(uint32(norder + 1))")
	if bytes.Count(sel, needle) != 1 {
		fatal("runtime/select.go: patch point not found exactly once")
	}
	sel = bytes.Replace(sel, needle, []byte("j := simselrandn(uint32(norder + 1))"), 1)
	put(filepath.Join(*goroot, "src/runtime/select.go"), sel)
	zz, err := os.ReadFile(filepath.Join(*verif, "sim/runtime/zz_sim.go"))
	must(err)
	put(filepath.Join(*goroot, "src/runtime/zz_sim.go"), zz)

	// raw files
	for rel, src := range cfg.Raw {
		if !filepath.IsAbs(src) {
			src = filepath.Join(*verif, src)
		}
		data, err2 := os.ReadFile(src)
		must(err2)
		put(filepath.Join(*repo, rel), data)
	}
	// simrt itself
	ents, err := os.ReadDir(filepath.Join(*verif, "sim/simrt"))
	must(err)
	for _, e := range ents {
		if strings.HasSuffix(e.Name(), ".go") {
			data, err2 := os.ReadFile(filepath.Join(*verif, "sim/simrt", e.Name()))
			must(err2)
			put(filepath.Join(*repo, "internal/zzsim/simrt", e.Name()), data)
		}
	}
	// replacements
	for rel, src := range cfg.Replace {
		data, err2 := os.ReadFile(filepath.Join(*verif, src))
		must(err2)
		put(filepath.Join(*repo, rel), data)
	}
	// emptied dirs
	for _, d := range cfg.EmptyDirs {
		ents, err2 := os.ReadDir(filepath.Join(*repo, d))
		must(err2)
		pkgName := ""
		for _, e := range ents {
			if !strings.HasSuffix(e.Name(), ".go") {
				continue
			}
			p := filepath.Join(*repo, d, e.Name())
			if pkgName == "" {
				pkgName = packageNameOf(p)
			}
			if _, ok := overlay[p]; ok {
				continue
			}
			put(p, []byte("package "+pkgName+"\n"))
		}
	}
	// emptied test files
	for _, d := range cfg.EmptyTests {
		ents, err2 := os.ReadDir(filepath.Join(*repo, d))
		must(err2)
		for _, e := range ents {
			if !strings.HasSuffix(e.Name(), "_test.go") {
				continue
			}
			p := filepath.Join(*repo, d, e.Name())
			if _, ok := overlay[p]; ok {
				continue
			}
			name := packageNameOf(p)
			name = strings.TrimSuffix(name, "_test")
			put(p, []byte("package "+name+"\n"))
		}
	}

	// import rewriting (simulated stand-ins for dependencies)
	if len(cfg.ImportRewrite) > 0 {
		for _, d := range cfg.Packages {
			ents, err2 := os.ReadDir(filepath.Join(*repo, d))
			if err2 != nil {
				continue
			}
			for _, e := range ents {
				if !strings.HasSuffix(e.Name(), ".go") || strings.HasSuffix(e.Name(), "_test.go") {
					continue
				}
				p := filepath.Join(*repo, d, e.Name())
				data, ok := content[p]
				if !ok {
					data, err2 = os.ReadFile(p)
					must(err2)
				}
				changed := false
				for from, to := range cfg.ImportRewrite {
					q := []byte(fmt.Sprintf("%q", from))
					if bytes.Contains(data, q) {
						data = bytes.ReplaceAll(data, q, []byte(fmt.Sprintf("%q", to)))
						changed = true
					}
				}
				if changed {
					put(p, data)
				}
			}
		}
	}

	// typed load
	pcfg := &packages.Config{
		Mode: packages.NeedName | packages.NeedFiles | packages.NeedCompiledGoFiles |
			packages.NeedSyntax | packages.NeedTypes | packages.NeedTypesInfo | packages.NeedImports,
		Dir:     *repo,
		Overlay: content,
		Env:     os.Environ(),
	}
	var patterns []string
	for _, p := range cfg.Packages {
		patterns = append(patterns, "./"+p)
	}
	var pkgs []*packages.Package
	if len(patterns) > 0 {
		pkgs, err = packages.Load(pcfg, patterns...)
		must(err)
	}
	nerr := 0
	for _, p := range pkgs {
		for _, e := range p.Errors {
			fmt.Fprintf(os.Stderr, "goinst: load error: %v\n", e)
			nerr++
		}
	}
	if nerr > 0 {
		os.Exit(2)
	}

	skip := map[string]bool{}
	for _, f := range cfg.SkipFiles {
		skip[f] = true
	}

	totalSites := 0
	var allErrs []string
	var instrumented []string
	for _, p := range pkgs {
		for i, f := range p.Syntax {
			abs := p.CompiledGoFiles[i]
			rel, _ := filepath.Rel(*repo, abs)
			if strings.HasSuffix(rel, "_test.go") || skip[rel] {
				continue
			}
			if strings.HasPrefix(rel, "..") {
				continue
			}
			src, ok := content[abs]
			if !ok {
				src, err = os.ReadFile(abs)
				must(err)
			}
			fi := &fileInst{fset: p.Fset, file: f, src: src, rel: rel, info: p.TypesInfo, cfg: &cfg}
			fi.run()
			allErrs = append(allErrs, fi.errs...)
			if len(fi.edits) > 0 {
				put(abs, fi.apply())
				totalSites += fi.nsites
				instrumented = append(instrumented, rel)
			}
		}
	}
	if len(allErrs) > 0 {
		for _, e := range allErrs {
			fmt.Fprintln(os.Stderr, "goinst: unsupported:", e)
		}
		os.Exit(2)
	}

	ov := struct {
		Replace map[string]string
	}{overlay}
	data, _ := json.MarshalIndent(ov, "", " ")
	must(os.WriteFile(filepath.Join(*out, "overlay.json"), data, 0o644))
	sort.Strings(instrumented)
	meta, _ := json.MarshalIndent(map[string]any{"sites": totalSites, "instrumented": instrumented}, "", " ")
	must(os.WriteFile(filepath.Join(*out, "goinst.json"), meta, 0o644))
	fmt.Printf("goinst: %d files instrumented, %d sites\n", len(instrumented), totalSites)
}

func packageNameOf(path string) string {
	b, err := os.ReadFile(path)
	must(err)
	for _, line := range strings.Split(string(b), "\n") {
		line = strings.TrimSpace(line)
		if strings.HasPrefix(line, "package ") {
			f := strings.Fields(line)
			return f[1]
		}
	}
	fatal("no package clause in " + path)
	return ""
}

func must(err error) {
	if err != nil {
		fatal(err.Error())
	}
}

func fatal(msg string) {
	fmt.Fprintln(os.Stderr, "goinst:", msg)
	os.Exit(2)
}

// ---------------------------------------------------------------------------

func (fi *fileInst) off(p token.Pos) int { return fi.fset.Position(p).Offset }

func (fi *fileInst) text(n ast.Node) string { return string(fi.src[fi.off(n.Pos()):fi.off(n.End())]) }

func (fi *fileInst) site(n ast.Node, kind string) string {
	fi.nsites++
	return fmt.Sprintf("%q", fmt.Sprintf("%s:%d:%s", strings.TrimPrefix(fi.rel, "internal/"), fi.fset.Position(n.Pos()).Line, kind))
}

func (fi *fileInst) insert(p token.Pos, text string) {
	o := fi.off(p)
	fi.edits = append(fi.edits, edit{o, o, text, len(fi.edits)})
}

func (fi *fileInst) insertAfter(p token.Pos, text string) {
	// insertion that must come after other insertions at the same offset
	o := fi.off(p)
	fi.edits = append(fi.edits, edit{o, o, text, len(fi.edits) + 1<<20})
}

func (fi *fileInst) replace(n ast.Node, text string) {
	fi.edits = append(fi.edits, edit{fi.off(n.Pos()), fi.off(n.End()), text, len(fi.edits)})
}

func (fi *fileInst) fail(n ast.Node, msg string) {
	fi.errs = append(fi.errs, fmt.Sprintf("%s: %s", fi.fset.Position(n.Pos()), msg))
}

func (fi *fileInst) apply() []byte {
	// the import goes right after the package clause, on the same line
	nameEnd := fi.off(fi.file.Name.End())
	fi.edits = append(fi.edits, edit{nameEnd, nameEnd, "; import zzsimrt " + fmt.Sprintf("%q", simrtPath), -1})
	sort.SliceStable(fi.edits, func(a, b int) bool {
		if fi.edits[a].pos != fi.edits[b].pos {
			return fi.edits[a].pos < fi.edits[b].pos
		}
		// pure insertions before replacements starting at the same offset
		ai, bi := fi.edits[a].pos == fi.edits[a].end, fi.edits[b].pos == fi.edits[b].end
		if ai != bi {
			return ai
		}
		return fi.edits[a].seq < fi.edits[b].seq
	})
	var out bytes.Buffer
	last := 0
	for _, e := range fi.edits {
		if e.pos < last {
			fatal(fmt.Sprintf("%s: overlapping edits at offset %d (%q)", fi.rel, e.pos, e.text))
		}
		out.Write(fi.src[last:e.pos])
		out.WriteString(e.text)
		last = e.end
	}
	out.Write(fi.src[last:])
	return out.Bytes()
}

// listStmt returns the nearest enclosing statement (not crossing a function
// literal) that is a direct element of a statement list (block, case body,
// comm body); a label in front of it is included. inHeader reports that the
// current node sits in the header (init/cond/tag/post) of that statement.
func (fi *fileInst) listStmt() (ast.Stmt, bool) {
	for i := len(fi.parents) - 1; i >= 1; i-- {
		n := fi.parents[i]
		if _, ok := n.(*ast.FuncLit); ok {
			return nil, false
		}
		st, ok := n.(ast.Stmt)
		if !ok {
			continue
		}
		if _, isLabel := st.(*ast.LabeledStmt); isLabel {
			continue
		}
		elem, ok := fi.listElem(st, i)
		if !ok {
			continue
		}
		return elem, isCompound(st)
	}
	return nil, false
}

func isCompound(st ast.Stmt) bool {
	switch st.(type) {
	case *ast.IfStmt, *ast.ForStmt, *ast.SwitchStmt, *ast.TypeSwitchStmt, *ast.RangeStmt, *ast.SelectStmt:
		return true
	}
	return false
}

// listElem checks that st (= fi.parents[i], or the node being visited when
// i == len(parents)) is an element of a statement list and returns the list
// element (the label when st is labeled).
func (fi *fileInst) listElem(st ast.Stmt, i int) (ast.Stmt, bool) {
	if i-1 < 0 {
		return nil, false
	}
	par := fi.parents[i-1]
	elem := st
	if l, ok := par.(*ast.LabeledStmt); ok {
		elem = l
		if i-2 < 0 {
			return nil, false
		}
		par = fi.parents[i-2]
	}
	switch p := par.(type) {
	case *ast.BlockStmt:
		return elem, true
	case *ast.CaseClause:
		for _, b := range p.Body {
			if b == elem {
				return elem, true
			}
		}
	case *ast.CommClause:
		for _, b := range p.Body {
			if b == elem {
				return elem, true
			}
		}
	}
	return nil, false
}

// labeled returns the list element for the statement being visited (which is
// not yet on the parent stack), or nil when it is not in a statement list.
func (fi *fileInst) labeled(st ast.Stmt) ast.Stmt {
	elem, ok := fi.listElem(st, len(fi.parents))
	if !ok {
		fi.fail(st, fmt.Sprintf("%T outside a statement list", st))
		return st
	}
	return elem
}

func (fi *fileInst) pre(st ast.Stmt, n ast.Node, kind string) {
	fi.insert(st.Pos(), "zzsimrt.Yield("+fi.site(n, kind)+"); ")
}

func (fi *fileInst) post(st ast.Stmt, n ast.Node, kind string) {
	fi.insertAfter(st.End(), "; zzsimrt.Yield("+fi.site(n, kind+".post")+")")
}

func isNamed(t types.Type, pkg, name string) bool {
	if t == nil {
		return false
	}
	if p, ok := t.(*types.Pointer); ok {
		t = p.Elem()
	}
	t = types.Unalias(t)
	n, ok := t.(*types.Named)
	if !ok {
		return false
	}
	o := n.Obj()
	return o.Pkg() != nil && o.Pkg().Path() == pkg && o.Name() == name
}

func isPointer(t types.Type) bool {
	_, ok := types.Unalias(t).Underlying().(*types.Pointer)
	return ok
}

func (fi *fileInst) isComm(n ast.Node) bool {
	// is n (a statement) the Comm of a CommClause?
	for i := len(fi.parents) - 1; i >= 0; i-- {
		if cc, ok := fi.parents[i].(*ast.CommClause); ok {
			if cc.Comm == nil {
				return false
			}
			return fi.off(n.Pos()) >= fi.off(cc.Comm.Pos()) && fi.off(n.End()) <= fi.off(cc.Comm.End())
		}
		if _, ok := fi.parents[i].(*ast.FuncLit); ok {
			return false
		}
		if _, ok := fi.parents[i].(*ast.BlockStmt); ok {
			return false
		}
	}
	return false
}

func (fi *fileInst) run() {
	var visit func(n ast.Node) bool
	visit = func(n ast.Node) bool {
		if n == nil {
			fi.parents = fi.parents[:len(fi.parents)-1]
			return true
		}
		fi.handle(n)
		fi.parents = append(fi.parents, n)
		return true
	}
	ast.Inspect(fi.file, visit)
}

func (fi *fileInst) handle(n ast.Node) {
	switch x := n.(type) {
	case *ast.GoStmt:
		fi.goStmt(x)

	case *ast.SendStmt:
		if fi.isComm(x) {
			return
		}
		st := fi.labeled(x)
		if containsCall(x.Value) {
			// evaluate a (possibly long, blocking) value first, yield, then send
			fi.tmpN++
			n := fi.tmpN
			fi.insert(x.Pos(), fmt.Sprintf("{ zzc%d := ", n))
			ao := fi.off(x.Arrow)
			fi.edits = append(fi.edits, edit{ao, ao + 2, fmt.Sprintf("; zzv%d := ", n), len(fi.edits)})
			fi.insertAfter(x.End(), fmt.Sprintf("; zzsimrt.Yield(%s); zzc%d <- zzv%d; zzsimrt.Yield(%s) }",
				fi.site(x, "send"), n, n, fi.site(x, "send.post")))
			_ = st
			return
		}
		fi.pre(st, x, "send")
		fi.post(st, x, "send")

	case *ast.UnaryExpr:
		if x.Op != token.ARROW {
			return
		}
		if fi.isComm(x) {
			return
		}
		st, inHeader := fi.listStmt()
		if st == nil {
			fi.fail(x, "receive outside a statement list")
			return
		}
		if inHeader {
			fi.fail(x, "receive in a statement header")
			return
		}
		inner := st
		if l, ok := st.(*ast.LabeledStmt); ok {
			inner = l.Stmt
		}
		switch s := inner.(type) {
		case *ast.ExprStmt, *ast.AssignStmt, *ast.DeclStmt, *ast.SendStmt:
			fi.pre(st, x, "recv")
			fi.post(st, x, "recv")
		case *ast.ReturnStmt:
			if len(s.Results) == 1 && s.Results[0] == ast.Expr(x) {
				fi.tmpN++
				tmp := fmt.Sprintf("zzv%d", fi.tmpN)
				fi.replace(s, fmt.Sprintf("{ zzsimrt.Yield(%s); %s := %s; zzsimrt.Yield(%s); return %s }",
					fi.site(x, "recv"), tmp, fi.text(x), fi.site(x, "recv.post"), tmp))
			} else {
				fi.fail(x, "receive inside a compound return")
			}
		default:
			fi.fail(x, fmt.Sprintf("receive inside %T", inner))
		}

	case *ast.SelectStmt:
		st := fi.labeled(x)
		fi.pre(st, x, "select")
		for _, c := range x.Body.List {
			cc := c.(*ast.CommClause)
			if cc.Comm == nil {
				continue
			}
			fi.insert(cc.Colon+1, " zzsimrt.Yield("+fi.site(cc, "case")+");")
		}

	case *ast.RangeStmt:
		t := fi.info.TypeOf(x.X)
		if t == nil {
			return
		}
		switch u := types.Unalias(t).Underlying().(type) {
		case *types.Chan:
			st := fi.labeled(x)
			fi.pre(st, x, "rangechan")
			fi.insert(x.Body.Lbrace+1, " zzsimrt.Yield("+fi.site(x, "rangechan.body")+");")
			fi.post(st, x, "rangechan")
		case *types.Map:
			fi.rangeMap(x, u)
		}

	case *ast.AssignStmt:
		// m[k] = v with a key that is not a basic type: give the key a logical id
		for _, lhs := range x.Lhs {
			ix, ok := lhs.(*ast.IndexExpr)
			if !ok {
				continue
			}
			mt, ok := types.Unalias(fi.info.TypeOf(ix.X)).Underlying().(*types.Map)
			if !ok {
				continue
			}
			if needsTouch(mt.Key()) {
				st, inHeader := fi.listStmtFor(x)
				if st == nil || inHeader {
					fi.fail(x, "map insert with object key outside a statement list")
					continue
				}
				fi.insert(st.Pos(), "zzsimrt.Touch("+fi.text(ix.Index)+"); ")
			}
		}

	case *ast.CallExpr:
		fi.call(x)

	case *ast.CompositeLit:
		if !fi.cfg.HTTPClientHook {
			return
		}
		if t := fi.info.TypeOf(x); t == nil || !isNamed(t, "net/http", "Client") {
			return
		}
		found := false
		for _, el := range x.Elts {
			kv, ok := el.(*ast.KeyValueExpr)
			if !ok {
				continue
			}
			if id, ok2 := kv.Key.(*ast.Ident); ok2 && id.Name == "Transport" {
				fi.insert(kv.Value.Pos(), "zzsimrt.HTTPTransport(")
				fi.insertAfter(kv.Value.End(), ")")
				fi.nsites++
				found = true
			}
		}
		if !found {
			fi.fail(x, "http.Client literal without Transport")
		}
	}
}

// listStmtFor is listStmt for a node that is itself a statement (not yet pushed).
func (fi *fileInst) listStmtFor(s ast.Stmt) (ast.Stmt, bool) {
	if elem, ok := fi.listElem(s, len(fi.parents)); ok {
		return elem, false
	}
	return fi.listStmt()
}

func needsTouch(t types.Type) bool {
	switch u := types.Unalias(t).Underlying().(type) {
	case *types.Basic:
		return false
	case *types.Array:
		return needsTouch(u.Elem())
	case *types.Pointer, *types.Interface, *types.Chan:
		return true
	case *types.Struct:
		for i := 0; i < u.NumFields(); i++ {
			if needsTouch(u.Field(i).Type()) {
				return true
			}
		}
		return false
	}
	return true
}

func containsCall(e ast.Expr) bool {
	found := false
	ast.Inspect(e, func(n ast.Node) bool {
		if _, ok := n.(*ast.FuncLit); ok {
			return false
		}
		if _, ok := n.(*ast.CallExpr); ok {
			found = true
		}
		return true
	})
	return found
}

func simpleExpr(e ast.Expr) bool {
	switch x := e.(type) {
	case *ast.Ident:
		return true
	case *ast.SelectorExpr:
		return simpleExpr(x.X)
	case *ast.ParenExpr:
		return simpleExpr(x.X)
	case *ast.StarExpr:
		return simpleExpr(x.X)
	}
	return false
}

func (fi *fileInst) rangeMap(x *ast.RangeStmt, mt *types.Map) {
	keyUsed := x.Key != nil && !isBlank(x.Key)
	valUsed := x.Value != nil && !isBlank(x.Value)
	if !keyUsed && !valUsed {
		return // body cannot observe the order through the loop variables
	}
	if x.Tok != token.DEFINE {
		fi.fail(x, "map range with '=' assignment")
		return
	}
	if !simpleExpr(x.X) {
		fi.fail(x, "map range over a non-trivial expression")
		return
	}
	m := fi.text(x.X)
	fi.tmpN++
	kname := fmt.Sprintf("zzk%d", fi.tmpN)
	if keyUsed {
		kname = fi.text(x.Key)
	}
	hdr := fmt.Sprintf("for _, %s := range zzsimrt.MapKeys(%s, %s) ", kname, m, fi.site(x, "rangemap"))
	// replace "for k, v := range m " up to the body brace
	fi.edits = append(fi.edits, edit{fi.off(x.Pos()), fi.off(x.Body.Lbrace), hdr, len(fi.edits)})
	if valUsed {
		fi.tmpN++
		ok := fmt.Sprintf("zzok%d", fi.tmpN)
		fi.insert(x.Body.Lbrace+1, fmt.Sprintf(" %s, %s := %s[%s]; if !%s { continue };", fi.text(x.Value), ok, m, kname, ok))
	}
}

func isBlank(e ast.Expr) bool {
	id, ok := e.(*ast.Ident)
	return ok && id.Name == "_"
}

func (fi *fileInst) goStmt(g *ast.GoStmt) {
	call := g.Call
	site := fi.site(g, "go")
	if fl, ok := call.Fun.(*ast.FuncLit); ok {
		fi.insert(g.Pos(), "{ zzgid := zzsimrt.BeforeGo("+site+"); ")
		fi.insert(fl.Body.Lbrace+1, " zzsimrt.Enter(zzgid); defer zzsimrt.Exit();")
		fi.insertAfter(g.End(), " }")
		return
	}
	if tv, ok := fi.info.Types[call.Fun]; ok && tv.IsBuiltin() {
		fi.fail(g, "go with a builtin")
		return
	}
	var sb strings.Builder
	sb.WriteString("{ zzgid := zzsimrt.BeforeGo(" + site + "); zzf := " + fi.text(call.Fun) + "; ")
	var args []string
	for i, a := range call.Args {
		tv := fi.info.Types[a]
		if tv.Value != nil || tv.IsNil() {
			args = append(args, fi.text(a))
			continue
		}
		name := fmt.Sprintf("zza%d", i)
		sb.WriteString(name + " := " + fi.text(a) + "; ")
		if call.Ellipsis.IsValid() && i == len(call.Args)-1 {
			name += "..."
		}
		args = append(args, name)
	}
	sb.WriteString("go func() { zzsimrt.Enter(zzgid); defer zzsimrt.Exit(); zzf(" + strings.Join(args, ", ") + ") }() }")
	fi.replace(g, sb.String())
}

func (fi *fileInst) call(c *ast.CallExpr) {
	// builtin close
	if id, ok := c.Fun.(*ast.Ident); ok && id.Name == "close" {
		if tv, ok2 := fi.info.Types[c.Fun]; ok2 && tv.IsBuiltin() {
			if _, isDefer := fi.parents[len(fi.parents)-1].(*ast.DeferStmt); isDefer {
				return
			}
			st, inHeader := fi.listStmt()
			if st != nil && !inHeader {
				fi.pre(st, c, "close")
			}
			return
		}
	}
	sel, ok := c.Fun.(*ast.SelectorExpr)
	if !ok {
		return
	}
	// package-level functions
	if id, ok := sel.X.(*ast.Ident); ok {
		if pn, ok2 := fi.info.Uses[id].(*types.PkgName); ok2 {
			if fi.cfg.TimerJitter && pn.Imported().Path() == "time" && len(c.Args) >= 1 &&
				(sel.Sel.Name == "NewTimer" || sel.Sel.Name == "NewTicker" || sel.Sel.Name == "After" || sel.Sel.Name == "AfterFunc") {
				fn := "zzsimrt.Jitter("
				if sel.Sel.Name == "NewTicker" {
					fn = "zzsimrt.JitterTick("
				}
				fi.insert(c.Args[0].Pos(), fn)
				fi.insertAfter(c.Args[0].End(), ")")
				fi.nsites++
			}
			if pn.Imported().Path() == "time" && sel.Sel.Name == "Sleep" {
				st, inHeader := fi.listStmt()
				if st == nil || inHeader {
					fi.fail(c, "time.Sleep outside a statement list")
					return
				}
				fi.pre(st, c, "sleep")
				fi.post(st, c, "sleep")
			}
			return
		}
	}
	selInfo, ok := fi.info.Selections[sel]
	if !ok || selInfo.Kind() != types.MethodVal {
		return
	}
	recvT := selInfo.Recv()
	fn, ok := selInfo.Obj().(*types.Func)
	if !ok {
		return
	}
	sig := fn.Type().(*types.Signature)
	if sig.Recv() == nil {
		return
	}
	declT := sig.Recv().Type()
	name := sel.Sel.Name

	addr := func() string {
		if len(selInfo.Index()) > 1 {
			fi.fail(c, "method promoted through embedding: "+name)
			return ""
		}
		if isPointer(recvT) {
			return fi.text(sel.X)
		}
		return "&" + fi.text(sel.X)
	}

	switch {
	case isNamed(declT, "sync", "Mutex"), isNamed(declT, "sync", "RWMutex"):
		switch name {
		case "Lock":
			fi.replace(c, "zzsimrt.Lock("+addr()+", "+fi.site(c, "lock")+")")
		case "Unlock":
			fi.replace(c, "zzsimrt.Unlock("+addr()+")")
		case "RLock":
			fi.replace(c, "zzsimrt.RLock("+addr()+", "+fi.site(c, "rlock")+")")
		case "RUnlock":
			fi.replace(c, "zzsimrt.RUnlock("+addr()+")")
		case "TryLock", "TryRLock":
			// non-blocking: leave
		default:
			fi.fail(c, "unsupported mutex method "+name)
		}
	case isNamed(declT, "sync", "WaitGroup"):
		if name == "Wait" {
			fi.replace(c, "zzsimrt.WGWait("+addr()+", "+fi.site(c, "wgwait")+")")
		}
	case isNamed(declT, "sync", "Cond"):
		if name == "Wait" {
			fi.fail(c, "sync.Cond.Wait is not modelled")
		}
	case isNamed(declT, "sync", "Once"):
		fi.fail(c, "sync.Once is not modelled")
	case isAtomicType(declT):
		// control-state atomics are scheduling points; statistics counters are not
		field := lastName(sel.X)
		for _, ex := range fi.cfg.NoYieldAtomics {
			if ex == field {
				return
			}
		}
		st, _ := fi.listStmt()
		if st == nil {
			fi.fail(c, "atomic operation outside a statement list")
			return
		}
		inner := st
		if l, ok := st.(*ast.LabeledStmt); ok {
			inner = l.Stmt
		}
		if _, isFor := inner.(*ast.ForStmt); isFor {
			fi.fail(c, "atomic operation in a for header")
			return
		}
		fi.pre(st, c, "atomic")
	default:
		key := typeKey(declT) + "." + name
		if kind, ok := fi.cfg.BlockingMethods[key]; ok {
			st, inHeader := fi.listStmt()
			if st == nil || inHeader {
				fi.fail(c, "blocking method call outside a plain statement: "+key)
				return
			}
			fi.pre(st, c, name)
			if kind == "block" {
				fi.post(st, c, name)
			}
		}
	}
}

func typeKey(t types.Type) string {
	if p, ok := t.(*types.Pointer); ok {
		t = p.Elem()
	}
	if n, ok := types.Unalias(t).(*types.Named); ok && n.Obj().Pkg() != nil {
		return n.Obj().Pkg().Path() + "." + n.Obj().Name()
	}
	return t.String()
}

func isAtomicType(t types.Type) bool {
	if p, ok := t.(*types.Pointer); ok {
		t = p.Elem()
	}
	n, ok := types.Unalias(t).(*types.Named)
	if !ok || n.Obj().Pkg() == nil {
		return false
	}
	return n.Obj().Pkg().Path() == "sync/atomic"
}

func lastName(e ast.Expr) string {
	switch x := e.(type) {
	case *ast.Ident:
		return x.Name
	case *ast.SelectorExpr:
		return x.Sel.Name
	case *ast.ParenExpr:
		return lastName(x.X)
	case *ast.StarExpr:
		return lastName(x.X)
	}
	return ""
}
