package main

import (
	"encoding/json"
	"fmt"
	"os"
	"path/filepath"
	"sort"
)

// notApplicable lists every property that is not claimed, with the reason.
// "cannot apply" = the property is a pure function of its input: there is no
// schedule, clock, fault or interleaving for a simulator to own.
// "not built" = the technique applies but the world was not built in time.
var notApplicable = map[string]string{
	"C01": "cannot apply: the internal-method decision is a pure function of (user list, request); no schedule, clock, fault or interleaving in the statement (the locking of ReloadInternalUsers/Authenticate is exercised under C40)",
	"C04": "cannot apply: routes x credentials x permission sets -> response is a pure function; nothing for a scheduler or fault injector to decide",
	"C05": "cannot apply: Origin header x allow list -> header value is a pure function",
	"C06": "cannot apply: path-name validation and prefix arithmetic are pure functions of strings",
	"C07": "cannot apply: redaction of a configuration value / header dump is a pure function",
	"C08": "cannot apply: encode/decode round trip is a pure function of a configuration value",
	"C09": "cannot apply: environment/YAML equivalence is a pure function of the inputs",
	"C10": "cannot apply: loading a byte string either fails or yields a valid configuration: pure function of the input (input fuzzing, not simulation)",
	"C11": "cannot apply: deep-copy independence is a pure data-structure property",
	"C14": "cannot apply: path-name resolution is a pure function of (configuration set, name)",
	"C21": "cannot apply: command splitting/expansion is a pure function; the exit-status half needs real child processes, which a simulated run replaces by a stub",
	"C22": "cannot apply: remuxing is a pure function of the access-unit sequence",
	"C23": "cannot apply: RTP packetization is a pure function of payloads and sizes",
	"C24": "cannot apply: integer timestamp scaling is a pure function",
	"C26": "cannot apply: segment file name encode/decode is a pure function",
	"C31": "cannot apply: instant arithmetic over file names is a pure function",
	"C32": "cannot apply: wire codec round trips / malformed-input safety are pure functions of byte strings (fuzzing, not simulation)",
	"C34": "cannot apply: descriptor parsing is a pure function of strings",
	"C35": "cannot apply: byte-level fuzzing of socket listeners; no schedule or fault dimension in the statement and the listeners cannot run on the simulated transport here",
	"C36": "cannot apply: metrics exposition is pure formatting of a snapshot",
	"C37": "cannot apply: log line formatting is a pure function of the record",
	"C41": "cannot apply: fingerprint comparison is a pure function of (certificate, string)",
	"C42": "cannot apply: placeholder substitution is a pure function of (template, groups, values)",
	"C44": "cannot apply: pagination is a pure function of (list length, parameters)",
}

// notBuilt lists properties to which the technique applies but for which no
// check is registered yet (none at present).
var notBuilt = map[string]string{}

func cmdManifest() {
	ids := make([]string, 0, len(props))
	for id := range props {
		ids = append(ids, id)
	}
	sort.Strings(ids)
	var checks []map[string]any
	engines := map[string][]string{}
	for _, id := range ids {
		p := props[id]
		engines[p.World] = append(engines[p.World], id)
		for _, w := range p.Also {
			engines[w] = append(engines[w], id)
		}
		checks = append(checks, map[string]any{
			"property_id":         id,
			"quick_cmd":           "bin/verif check " + id + " --tier quick",
			"thorough_cmd":        "bin/verif check " + id + " --tier thorough",
			"evidence_file":       "/verif/evidence/" + id + ".json",
			"replay_cmd_template": "bin/verif replay {path}",
			"engine":              "gosim-" + p.World,
			"technique":           "deterministic simulation with fault injection: seeded cooperative scheduler (simrt) over instrumented real code, seeded faults, history oracles, shrinking replay files",
			"level_claimed": map[string]any{
				"category":   p.Level,
				"text":       p.LevelText,
				"design_ref": "DESIGN.md section 5 (" + id + ")",
			},
			"level_note": p.LevelNote,
		})
	}
	var eng []map[string]any
	wn := make([]string, 0, len(engines))
	for w := range engines {
		wn = append(wn, w)
	}
	sort.Strings(wn)
	for _, w := range wn {
		eng = append(eng, map[string]any{
			"name": "gosim-" + w, "path": "/verif/worlds/" + w, "serves_properties": engines[w],
			"kind_free_text": "deterministic simulation world: real mediamtx code instrumented by cmd/goinst, run under sim/simrt (seeded scheduler on testing/synctest, fake clock, seeded select order), driven by cmd/verif",
		})
	}
	var na []map[string]any
	all := map[string]string{}
	for k, v := range notApplicable {
		all[k] = v
	}
	for k, v := range notBuilt {
		all[k] = v
	}
	nk := make([]string, 0, len(all))
	for k := range all {
		if props[k] == nil {
			nk = append(nk, k)
		}
	}
	sort.Strings(nk)
	for _, k := range nk {
		na = append(na, map[string]any{"property_id": k, "reason": all[k]})
	}
	m := map[string]any{
		"version":   1,
		"setup_cmd": "./setup.sh",
		"hooks": map[string]any{
			"guard":            "verif",
			"enable":           "none needed: every seam is injected at check time with `go test -c -overlay` (instrumented copies, stub files, simulator runtime, 3-line runtime select patch); /repo is not modified by hooks",
			"baseline_off_cmd": "for m in $(cat /w/out/gomods.txt); do MF=$(cd /repo/$m && . /w/out/goenv.sh && gomodflag); (cd /repo/$m && go test $MF -json -vet=off -count=1 -timeout 25m ./...); done",
			"source_commits":   []string{},
			"add_only":         true,
		},
		"engines":        eng,
		"checks":         checks,
		"not_applicable": na,
		"notes":          "exit 0 = held on everything explored (KNOWN-FINDING lines for listed findings), 1 = VIOLATION property=<id> replay=<path>, 2 = infrastructure trouble. VERIF_SEED selects the seed block. Genuine defects found and repaired are listed in known_findings.json (status fixed).",
	}
	data, _ := json.MarshalIndent(m, "", " ")
	if err := os.WriteFile(filepath.Join(verifRoot, "MANIFEST.json"), append(data, '\n'), 0o644); err != nil {
		infra("%v", err)
	}
	fmt.Printf("MANIFEST.json: %d checks, %d not applicable\n", len(checks), len(na))
}
