// verif is the driver of the deterministic-simulation checks: it instruments
// and builds a world test binary from /repo's current working tree, runs
// seeded simulations in worker processes, confirms, shrinks and records
// violations as replay files, and writes the evidence file.
//
//	verif check <property> --tier quick|thorough
//	verif replay <file>
//	verif selftest <world>
//
// exit status: 0 property held on everything explored (known findings are
// printed as KNOWN-FINDING lines); 1 after a VIOLATION line; 2 infrastructure
// trouble (build failure, worker crash, watchdog, determinism mismatch).
package main

import (
	"bufio"
	"bytes"
	"crypto/sha256"
	"encoding/hex"
	"encoding/json"
	"flag"
	"fmt"
	"math/rand"
	"os"
	"os/exec"
	"path/filepath"
	"regexp"
	"runtime"
	"sort"
	"strconv"
	"strings"
	"sync"
	"time"
)

// verifRoot is the directory that holds bin/verif (…/bin/verif -> …); VERIF_ROOT overrides, /verif is the fallback.
var verifRoot = func() string {
	if v := os.Getenv("VERIF_ROOT"); v != "" {
		return v
	}
	if exe, err := os.Executable(); err == nil {
		if exe, err = filepath.EvalSymlinks(exe); err == nil {
			root := filepath.Dir(filepath.Dir(exe))
			if _, err = os.Stat(filepath.Join(root, "worlds")); err == nil {
				return root
			}
		}
	}
	return "/verif"
}()

// repoRoot is the tree under check (VERIF_REPO overrides).
var repoRoot = func() string {
	if v := os.Getenv("VERIF_REPO"); v != "" {
		return v
	}
	return "/repo"
}()

const goBin = "/opt/veriftools/go1.26.8/bin/go"

type propDef struct {
	Also      []string // further worlds explored under the same property (each gets a share of the budget)
	ID        string
	World     string
	Race      bool
	Level     string
	Quick     int     // runs
	Thorough  int     // runs
	QuickS    float64 // wall budget for the run phase, seconds
	ThorS     float64
	Rule      string
	Claims    []string // extra violation properties attributed to this check ("*" = panic)
	Stubs     []string
	Real      []string
	LevelText string
	LevelNote string
	Chunk     int64 // seeds per worker process launch
}

var w1Real = []string{
	"internal/core: pathManager, path (instrumented)", "internal/stream (instrumented)", "internal/staticsources.Handler (instrumented)",
	"internal/forward.Manager, DestHandler (instrumented)", "internal/hooks (instrumented)", "internal/externalcmd Cmd/Pool portable part (instrumented)",
	"internal/auth.Manager internal method (instrumented)", "internal/conf Load/Validate/FindPathConf/Equal/Clone", "gortsplib ringbuffer", "counterdumper/errordumper",
}
var w1Stubs = []string{
	"protocol front-ends (RTSP/RTMP/SRT/WebRTC/HLS/MoQ servers): replaced by protocol-shaped client actors calling the pathManager API",
	"internal/staticsources/rtp.Source: simulated pulled source", "internal/forward/rtmp.Dest: simulated forwarder",
	"internal/externalcmd/cmd_os.go: simulated hook process", "HLS server (SetHLSServer unused), metrics (nil)",
}

var props = map[string]*propDef{}

func reg(p *propDef) { props[p.ID] = p }

func init() {
	w1 := func(id string, rule string, claims ...string) {
		reg(&propDef{ID: id, World: "w1", Level: "exploration", Quick: 3000, Thorough: 300000, QuickS: 75, ThorS: 1500,
			Rule: rule, Claims: claims, Stubs: w1Stubs, Real: w1Real,
			LevelText: "seeded search over scenarios, schedules and faults of the real path manager / path / stream code inside one process; every oracle clause is evaluated on every run; a clean batch is evidence, not proof",
			LevelNote: "trusted: goinst rewrite is semantics preserving; stubs (protocol front-ends as client actors, simulated source/forwarder/hook process) behave like the real components at the interface; the per-protocol session code is not covered"})
	}
	w1("C03", "seeded scenario (users, credentials, path configurations, reloads, protocol-shaped clients) x seeded schedule; non-trivial = at least one client attached after an Authenticate call; distinct = distinct event-order hash")
	w1("C15", "seeded scenario with 1-4 configuration versions and reload sequences x seeded schedule; non-trivial = at least one reload executed; distinct = distinct event-order hash")
	w1("C16", "seeded scenario with 2-3 competing publishers x seeded schedule; non-trivial = a publisher was rejected or replaced while another was attached; distinct = distinct event-order hash")
	w1("C17", "seeded scenario (queue sizes 1-8, slow/failing readers) x seeded schedule; non-trivial = a reader received data; distinct = distinct event-order hash")
	w1("C18", "seeded scenario with maxReaders 1-3 and more readers than the limit x seeded schedule; non-trivial = two or more readers attached or a reader was closed by the path; distinct = distinct event-order hash")
	w1("C19", "seeded scenario with on-demand sources / runOnDemand commands, source faults and timer races x seeded schedule; non-trivial = an on-demand start happened; distinct = distinct event-order hash")
	w1("C20", "seeded scenario with hooks configured and simulated hook processes x seeded schedule; non-trivial = two or more hook launches; distinct = distinct event-order hash")
	w1("C39", "seeded scenario with forward lists (one destination in ten of C39 runs written with its scheme in capitals) and reloads x seeded schedule; a panic while a forward list is applied ends every forwarder and is claimed too; non-trivial = a forwarder handler was started; distinct = distinct event-order hash", "*")
	w1("C40", "seeded scenario with everything enabled (publishers, readers, API polls, reloads, hooks, forwarders, shutdown) x seeded schedule, built with the race detector; the scheduler's own synchronisation is hidden from the detector so happens-before is the program's; non-trivial = at least one publisher and one reader attached; distinct = distinct event-order hash", "*")
	reg(&propDef{ID: "C33", World: "s2", Chunk: 600, Level: "exploration", Quick: 40000, Thorough: 4000000, QuickS: 60, ThorS: 900,
		Rule:      "seeded sender (group ids with gaps, payload sizes) x seeded network (reorder window 0..2*MaxReordered, duplication with equal or different size, loss, late duplicates) x limits (MaxReordered 1-8, MaxPendingBytes 64..100000) x 1-3 concurrent pushers under the seeded scheduler; non-trivial = the arrival sequence contains reordering, duplication or loss; distinct = distinct event-log hash",
		Real:      []string{"internal/protocols/moq/reorderer.Reorderer (instrumented)"},
		Stubs:     []string{"QUIC transport and MoQ session: replaced by a simulated network that decides arrival order, duplication and loss; the consumer of the handed-on subgroups is the oracle"},
		LevelText: "seeded search over arrival sequences and pusher interleavings of the real reorderer; sequential runs are checked against a reference of what may be held back, concurrent runs against order-insensitive clauses",
		LevelNote: "trusted: goinst rewrite; the reference for 'held back' counts distinct received groups newer than the last delivered one and the smallest received copy of each"})
	reg(&propDef{ID: "C25", World: "s1", Chunk: 1500, Level: "exploration", Quick: 60000, Thorough: 5000000, QuickS: 45, ThorS: 900,
		Rule:      "seeded sequence of 20-220 frames (clock rates 1 Hz..1 GHz, regular / stalled / jumping / backward / wrapping timestamps) x seeded wall clock (steady, drifting up to 2 %, scheduling jitter, forward and backward jumps of 1 ms..1 h) through the timeNow seam; non-trivial = at least one clock or timestamp jump; distinct = distinct (seed, jumps, re-references)",
		Real:      []string{"internal/ntpestimator.Estimator"},
		Stubs:     []string{"wall clock: simulated through the package variable timeNow"},
		LevelText: "seeded search over frame-timestamp and wall-clock histories of the real estimator; the window clause is checked on every call, the exact-difference clause on every steady step whose expected value stays inside the window",
		LevelNote: "trusted: exact reference arithmetic with math/big; 1 ns tolerance for the two truncations"})
	reg(&propDef{ID: "C38", World: "w2a", Chunk: 300, Level: "exploration", Quick: 12000, Thorough: 1500000, QuickS: 60, ThorS: 1200,
		Rule:      "seeded sequence of 1-8 file operations (write in place, two-chunk write, rename-over, delete+re-create, kubernetes-style symlink swap, chmod, unrelated file) separated by 0 ms..5 s (around the 10 ms and 1 s thresholds) x notification lag x consumer reload latency x seeded schedule; non-trivial = two or more content changes; distinct = distinct event-log hash",
		Real:      []string{"internal/confwatcher.ConfWatcher (instrumented)", "real file system operations, filepath.EvalSymlinks"},
		Stubs:     []string{"github.com/fsnotify/fsnotify: simulated (the harness feeds the notifications an inotify watcher of the parent directory produces)", "Core.run: a consumer that re-reads the file on every signal and keeps the last complete content"},
		LevelText: "seeded search over timings of file operations, notification delivery and consumer latency of the real watcher on the simulated clock; the oracle compares what the consumer loaded with the file's final content 10 simulated seconds after the last change",
		LevelNote: "trusted: the notification sequences the harness emits per operation match Linux inotify semantics; Core's reaction is modelled by the consumer (level 2, the watcher inside Core, is not built)"})
	reg(&propDef{ID: "C02", World: "w4", Chunk: 200, Level: "exploration", Quick: 12000, Thorough: 1500000, QuickS: 60, ThorS: 1200, Claims: []string{"*"},
		Rule:      "http or jwt method x 0-2 exclusion entries x 1-3 concurrent clients x 4-13 Authenticate calls (6 actions, 4 paths, 5 protocols, 3 IPs; credentials placed in the token field, the password and the token/jwt query parameter, several at once) x per-call network fault (refused, black hole, latency around the client timeout, forced status 100..503, garbage/truncated/oversize/slow/failing body, empty key set) x gaps of 0 ms..1 h on the simulated clock; jwt: Ed25519 key sets rotated by an authority actor, RefreshJWTJWKS calls, tokens valid / signed by a key outside the set / wrong, absent or foreign kid / tampered payload or signature / alg none / HS256 keyed with the public key / expired or not yet valid relative to the simulated clock / issuer, audience missing or wrong / permission claim as array, as string, missing, under another key, not a list; non-trivial = at least one request admitted and one rejected (exclusions not counted); distinct = distinct (method, admitted, rejected, failed/total key downloads, event-log hash)",
		Real:      []string{"internal/auth.Manager: Authenticate, authenticateHTTP, authenticateJWT, getToken, pullJWTJWKS, RefreshJWTJWKS, jwtClaims.UnmarshalJSON, customLimitReader (instrumented)", "net/http.Client (timeout handling, redirects, body wrappers), github.com/MicahParks/keyfunc/v3, github.com/golang-jwt/jwt/v5: real, on the simulated clock"},
		Stubs:     []string{"network and authority: the Transport of the manager's http.Client literals is replaced by a simulated round tripper (auth endpoint that grants by rule on the POST body it receives; JWKS endpoint serving the current key set), which injects the faults", "TLS and certificate fingerprints (C41)"},
		LevelText: "seeded search over request histories, authority behaviour, network faults and clock positions against the real manager; the oracle is a reference decision written from the statement: http = the authority delivered a 2xx to a POST carrying exactly the request's fields; jwt = the presented token (by the stated precedence) verifies, is within its validity and grants under a key set the server can hold at that instant",
		LevelNote: "trusted: the reference decision and token builder (worlds/w4/zz_ref.go); tokens are Ed25519 only; verdicts within 1 ms of exp/nbf and verdicts that differ between the key sets downloaded during a call are not judged; whether a key download is due is not judged (the statement does not say), only that a request whose own download failed is rejected"})
	reg(&propDef{ID: "C43", World: "w5", Chunk: 100, Level: "exploration", Quick: 6000, Thorough: 800000, QuickS: 60, ThorS: 1200, Claims: []string{"*"},
		Rule:      "1-2 publishers (H.264, may leave and return) x 1-3 viewers (credentials valid / wrong / missing / publish-only / restricted by address; IPv4 and IPv6 addresses; cookies kept or secret in the query; Basic or Bearer credentials; pauses around the 30 s session inactivity limit) x 1-3 attackers replaying a viewer's secret (from another address, in a cookie, on the other path from the viewer's own address, behind a forged X-Forwarded-For), sending none / malformed / unknown secrets, a wrong CDN bearer, and the right CDN bearer when one is configured; variants mpegts and fmp4, always-remux on/off; x seeded schedule; non-trivial = at least one media playlist or segment served and one refused; distinct = distinct (variant, served, refused, sessions, event-log hash)",
		Real:      []string{"internal/servers/hls: Server, httpServer.onRequest, session, muxer (findSession, getCDNSession, session cleanup), muxerInstance (instrumented); gohlslib muxer and gin router (real, uninstrumented)", "internal/core pathManager and path, internal/stream, internal/auth internal method (instrumented)", "internal/protocols/httpp handler chain (origin, server header, request filter, logger, write timeout, tracker)"},
		Stubs:     []string{"TCP listener and TLS of internal/protocols/httpp.Server: replaced by a stub that hands each simulated request (method, URL, headers, remote address) to the same handler chain; handlerExitOnPanic left out so that a panic is recorded instead of ending the process", "publishers: actors calling pathManager.AddPublisher with identifiable H.264 units", "hook processes, pulled sources, forwarders: simulated, unused"},
		LevelText: "seeded search over client histories against the real HLS server on the simulated clock; every response is judged when it is produced: a media playlist or segment is served (200 with a body) only if the request carries, in the cookie or the query, a secret the server handed out for that path to that address, or the configured CDN bearer; a session is created only for credentials that the reference user table allows to read the path from that address",
		LevelNote: "trusted: the reference user table (worlds/w5/zz_model.go) and the harness's bookkeeping of handed-out secrets; whether an expired or kicked session is still served is not judged (the statement does not say); low-latency HLS and TLS are not exercised"})
	reg(&propDef{ID: "C12", World: "w2", Chunk: 40, Level: "exploration", Quick: 1500, Thorough: 200000, QuickS: 90, ThorS: 1500,
		Rule:      "1-3 concurrent API clients x 4-12 operations (read, global patch, path-defaults patch, path add/patch/replace/delete on 3 names plus an invalid name; unique maxReaders/readTimeout values, valid and invalid payloads: queue size not a power of two, zero timeout, payload size above the limit, recordDeleteAfter below the segment duration) x 0-100 ms gaps x seeded schedule; non-trivial = at least one edit was accepted; distinct = distinct (clients/edits/accepted, event-log hash)",
		Real:      []string{"internal/core.Core: New, run, reloadConf, closeResources, createResources, doAPIConfig*, APIConfig* (instrumented)", "internal/conf: JSON decoding of the request bodies, Patch*/AddPath/ReplacePath/RemovePath/Validate, Clone", "internal/core path manager, internal/confwatcher, internal/recordcleaner, internal/auth (instrumented)"},
		Stubs:     []string{"protocol servers, API/metrics/pprof/playback listeners: disabled by configuration (no sockets exist inside the simulation)", "HTTP layer of internal/api: the harness decodes the JSON body like the handlers do and calls the apiParent methods of Core directly", "github.com/fsnotify/fsnotify: simulated, silent"},
		LevelText: "recorded invoke/return histories (stamped with the simulator's event sequence numbers) are checked with porcupine against a sequential model of the documented configuration semantics; a final read after quiescence ties the end state to the model",
		LevelNote: "trusted: the reference model (worlds/w2/zz_model.go) tracks 4 global and 4 path parameters; other parameters are not compared; porcupine time-outs (20 s) are inconclusive and never reported"})
	reg(&propDef{ID: "C13", World: "w6", Chunk: 60, Level: "exploration", Quick: 4000, Thorough: 600000, QuickS: 75, ThorS: 1500, Claims: []string{"*"},
		Rule:      "initial configuration (about 150 global parameters explicit, a random subset of the ten servers and services enabled, 1-4 path entries) x 1-4 bursts of 1-3 racing configuration changes (rewrite of the configuration file changing 0-30 parameters and the path set; API patch of 1-6 global parameters; API patch of the path defaults; API add / patch / replace / delete of a path) separated by 0 ms..1.5 s x optional failure of one component to start x seeded schedule; a check after every burst; non-trivial = at least one configuration was applied after the start; distinct = distinct (bursts, configurations applied, components recreated, components kept, server exited, event-log hash)",
		Real:      []string{"internal/core.Core: New, run, reloadConf, closeResources (every close* predicate), createResources, doAPIConfig*, APIConfig* (instrumented)", "internal/core path manager and paths, internal/confwatcher, internal/recordcleaner, internal/auth.Manager, internal/logger, internal/conf Load/Validate/Patch*/Clone (real)"},
		Stubs:     []string{"RTSP, RTSPS, RTMP, RTMPS, HLS, WebRTC, SRT, MoQ servers, Control API, metrics, pprof and playback servers: recording stand-ins generated at check time from the real struct declarations (same exported fields; Initialize/Close report to a registry; the stand-ins register themselves in the metrics exporter and the path manager like the real ones)", "github.com/fsnotify/fsnotify: simulated", "hook processes, pulled sources, forwarders: simulated, unused"},
		LevelText: "seeded search over histories of configuration changes against the real Core; after every burst, once the server is quiescent: (A) every component slot is present or absent and holds the arguments (and in-place reloaded state) of the same slot in a second server started from nothing on the configuration in force; (B) every component reference held by a running component designates the instance now running; (C) a component is the same running instance as before when none of the configuration parameters read by its own constructor block, by those of the components it references, or by the logger's changed in any configuration applied in between; (D) every stand-in is started once, closed at most once, running exactly while the server holds it, and closed after shutdown",
		LevelNote: "trusted: the reading of createResources (worlds/w6/zz_plan.go: which parameters and references a constructor block uses) and the stand-ins' interface behaviour; what is decided is core.go's reconciliation, not the real servers' ability to rebind their sockets; in (A) recreating instead of reloading in place is accepted, as the statement allows either"})
	w3 := func(id, level, rule, text, note string, quick, thorough int, claims ...string) {
		reg(&propDef{ID: id, World: "w3", Chunk: 10, Level: level, Quick: quick, Thorough: thorough, QuickS: 80, ThorS: 1500,
			Rule: rule, Claims: claims, LevelText: text, LevelNote: note,
			Real: []string{"internal/stream (instrumented)", "internal/recorder fMP4 (instrumented)", "internal/playback onList/onGet/seekAndMux/segmentFMP4*/muxers (instrumented, called without listener)",
				"internal/recordstore", "internal/recordcleaner (instrumented)", "real files in a per-run directory"},
			Stubs: []string{"publisher: simulated (identifiable H.264 / LPCM samples with scripted pauses and absolute-time jumps)", "playback authentication: admit-all (permission is C04)", "HTTP listener: handlers are called through gin test contexts"}})
	}
	w3("C27", "fault_enumeration",
		"seeded recording (video/audio mix, GOP, segment/part durations, maxPartSize, pauses, absolute-time jumps that restart the recorder) x crash states of every segment file: box boundaries +-1, header interior and seeded random write offsets (thorough: up to 200 per file; in 1 recording in 20 every offset of one segment file, in a window of 12000 bytes when the file is longer), truncated tail and zero-filled tail up to the end of the write in progress, torn in-place duration patch; evaluations = simulated recordings, crash states are counted in coverage.extra_totals.crash_states; non-trivial = at least one crash state was checked; distinct = distinct (event-log hash, states)",
		"enumeration of crash states of real recordings made by the real recorder; for each state the real playback code must serve every sample an independent box reader finds in complete parts; closed segments are checked for structure, true duration, key-frame start, continuity and the one-part loss bound",
		"trusted: the independent box reader (worlds/w3/zz_boxes.go); crash model = byte prefix of the append-only file with truncated or zero-filled tail, plus partial application of the duration patch; block reordering of earlier writes is outside",
		40, 2000, "*")
	w3("C28", "fault_enumeration",
		"crash states as for C27 (8-40 per file) plus 16-64 seeded corruptions per recording (bit flips in box headers, box sizes 0/1/7/huge, zero pages, random bytes, empty file, zero-filled header payload, foreign and look-alike files, a directory in place of a file); 5 list/get requests per state; evaluations = simulated recordings, states in coverage.extra_totals; non-trivial = at least one state probed; distinct = distinct (event-log hash, states)",
		"every playback entry point is called on every directory state inside the simulation; a panic in the handler or in any goroutine it starts is a violation",
		"trusted: goroutine panics are captured by the simrt goroutine wrapper; the API recordings endpoints (package api) are not called",
		60, 3000, "*")
	w3("C29", "exploration",
		"seeded recording (as C27, absolute time monotonic) made by the real recorder, closed normally x 20 seeded windows (starting inside segments, in gaps, before and after everything; 0 ms..10 s long); list without and with window, get with fmp4 output; non-trivial = at least one window query answered; distinct = distinct (event-log hash, queries)",
		"real playback list/get compared with an independent reader of the on-disk segments: spans = runs of consecutive segments of one stream, clipped to the window; get = the recorded samples inside the window, in recorded order, with timestamps relative to the requested start, plus the pre-roll since the last random-access sample",
		"trusted: the independent box reader; tolerances: one sample duration at span ends, one time-scale tick at window edges; windows starting in a gap between runs only require a well-formed answer",
		300, 30000)
	w3("C30", "exploration",
		"seeded tree: segments recorded by the real recorder plus planted segments of 6 path names (static, nested name, regular-expression, recordDeleteAfter 0, unconfigured) with ages around the retention delay, look-alike files with suffixes (.bak .tmp ~) and foreign files; recordDeleteAfter 10 s..1 day; 2-5 cleaner passes on the simulated clock; non-trivial = at least one pass completed; distinct = distinct (event-log hash, passes)",
		"real record cleaner on a real directory under the simulated clock; after the last pass every file is classified by the harness from what it planted (never by the decoder under test): deleted only if an expirable segment older than the delay at the last pass, and every such segment is gone",
		"trusted: pass instants are derived from the cleaner's documented period (half the smallest delay, at most 30 min); 1 ms tolerance at the expiry boundary; configuration reloads while the cleaner runs are not exercised",
		400, 40000)
	props["C40"].Race = true
	props["C40"].Quick, props["C40"].Thorough = 1500, 100000
	props["C40"].QuickS, props["C40"].ThorS = 150, 1800
	props["C40"].Also = []string{"w2", "w3", "w7", "w5"}
	props["C12"].Also = []string{"w6"}
	props["C12"].Real = append(props["C12"].Real, "40% of the runs: world w6 (sequential exactness over every global parameter, about 150: after an accepted API patch of 1-6 global parameters the configuration in force differs from the previous one in exactly the fields of the payload, and each of them holds what a configuration file with the same text yields; real Core, conf.Patch*/Validate/Clone, file loader)")
	props["C38"].Also = []string{"w6"}
	props["C38"].Real = append(props["C38"].Real, "40% of the runs: world w6 (the watcher inside the real Core: file rewrites 0 ms..2.5 s apart, the configuration in force 5 s after the last write must be the file's; conf.Load, Core.run, reloadConf real; socket-owning components are recording stand-ins)")
	props["C38"].LevelNote = strings.Replace(props["C38"].LevelNote, "Core's reaction is modelled by the consumer (level 2, the watcher inside Core, is not built)", "in world w2a Core's reaction is modelled by the consumer; level 2, the watcher inside the real Core, runs in world w6 with complete (never torn) file contents", 1)
	props["C33"].Also = []string{"s3"}
	props["C33"].LevelText += "; in world s3 the order in which the server's inboundTrack.push hands subgroups on to its consumer, with one goroutine per received group, must be strictly increasing"
	props["C33"].Real = append(props["C33"].Real, "40% of the runs: world s3 (internal/servers/moq.inboundTrack.push, the place where the MoQ server uses the reorderer and hands the subgroups on to the path: one goroutine per received group, as the server has one per QUIC stream, under the seeded scheduler; the order in which the consumer is entered must be strictly increasing)")
	props["C18"].Also = []string{"w5"}
	props["C18"].Real = append(props["C18"].Real, "40% of the runs: world w5 (real HLS sessions as readers of a path whose publisher reconnects while sessions are being set up: every session alive in the quiet period after the run must be among the readers of its path)")
	props["C18"].LevelNote = strings.Replace(props["C18"].LevelNote, "the per-protocol session code is not covered", "of the per-protocol session code, what Close() of an HLS session does (w5) is covered; the other protocols' sessions are not", 1)
	props["C03"].Also = []string{"w5", "w7"}
	props["C03"].Real = append(props["C03"].Real, "20% of the runs: world w7 (real RTMP front-end: internal/servers/rtmp Server/listener/conn publish and read flows and internal/protocols/rtmp, real gortmplib on both ends of a simulated TCP network; every attachment seen between the server and the path manager must rest on an admission for that connection, path and action, and the admitted credentials must be those the client at that address sent)")
	props["C03"].LevelNote = strings.Replace(props["C03"].LevelNote, "the per-protocol session code is not covered", "of the per-protocol session code, HLS (w5) and RTMP (w7) are covered; RTSP, SRT, WebRTC and MoQ sessions are not", 1)
	props["C20"].Also = []string{"w7", "w5"}
	props["C20"].Real = append(props["C20"].Real, "20% of the runs: world w5 (real HLS sessions: runOnRead/runOnUnread per session, across session expiry, muxer destruction, failure of the muxer instance and shutdown)")
	props["C20"].Real = append(props["C20"].Real, "20% of the runs: world w7 (real RTMP connections: runOnConnect/runOnDisconnect per connection and runOnRead/runOnUnread per reading connection, observed where the hook closures announce themselves; every announced command must have been executed when the server has shut down)")
	props["C20"].LevelNote = strings.Replace(props["C20"].LevelNote, "the per-protocol session code is not covered", "runOnRead/runOnUnread and runOnConnect/runOnDisconnect are decided across real RTMP connections (w7) and real HLS sessions (w5); RTSP, SRT, WebRTC, MoQ sessions are not covered", 1)
	props["C03"].Real = append(props["C03"].Real, "40% of the runs: world w5 (real HLS server: the session code that turns an HTTP request into a reader of a path, judged against the recorded decisions of the authentication manager)")
	props["C40"].Real = append(props["C40"].Real, "10% of the runs each: world w2 (real Core with concurrent API configuration edits and reads, path manager, configuration watcher, record cleaner), world w3 (recorder, playback list/get handlers with their parsing goroutines, record store), world w7 (real RTMP server with real gortmplib clients publishing and reading, API list and kick of live connections, shutdown with connections open) and world w5 (real HLS server on the real path manager: a path of a regular-expression entry whose publisher leaves and returns while an API client lists and kicks its HLS sessions), all built with the race detector")
	props["C40"].LevelNote += "; metrics scrapes over HTTP are outside; of the real session kick paths RTMP's (w7) and HLS's (w5) are exercised, the other front-ends are stubs; data races are those the Go race detector reports under the explored schedules"
}

// ---------------------------------------------------------------------------

type violation struct {
	Property string `json:"property"`
	Clause   string `json:"clause"`
	Detail   string `json:"detail"`
	Step     int64  `json:"step"`
	SimTime  string `json:"sim_time"`
}

type sched struct {
	Seed      int64    `json:"seed"`
	SelSeed   uint64   `json:"sel_seed"`
	Strategy  string   `json:"strategy"`
	StallProb float64  `json:"stall_prob"`
	MaxSteps  int64    `json:"max_steps"`
	HorizonS  int64    `json:"horizon_s"`
	Focus     []string `json:"focus,omitempty"`
}

type scenario struct {
	World    string          `json:"world"`
	Property string          `json:"property"`
	GenSeed  int64           `json:"gen_seed"`
	Sched    sched           `json:"sched"`
	Body     json.RawMessage `json:"body"`
}

type spec struct {
	World      string    `json:"world"`
	Property   string    `json:"property"`
	Tier       string    `json:"tier"`
	SeedFrom   int64     `json:"seed_from"`
	SeedCount  int64     `json:"seed_count"`
	Scenario   *scenario `json:"scenario,omitempty"`
	SchedSeeds []int64   `json:"sched_seeds,omitempty"`
	Decisions  []int32   `json:"decisions,omitempty"`
	UseReplay  bool      `json:"use_replay,omitempty"`
	Out        string    `json:"out"`
	WithEvents bool      `json:"with_events,omitempty"`
	WithTrace  bool      `json:"with_trace,omitempty"`
	WallBudget int64     `json:"wall_budget_s,omitempty"`
	KeepGoing  bool      `json:"keep_going,omitempty"`
}

type line struct {
	Seed       int64            `json:"seed"`
	Scenario   *scenario        `json:"scenario,omitempty"`
	Decisions  []int32          `json:"decisions,omitempty"`
	NDecisions int              `json:"n_decisions"`
	Violations []violation      `json:"violations,omitempty"`
	Hash       string           `json:"hash"`
	Steps      int64            `json:"steps"`
	SimTimeNs  int64            `json:"sim_time_ns"`
	Counters   map[string]int64 `json:"counters,omitempty"`
	StepCap    bool             `json:"step_cap,omitempty"`
	Nontrivial bool             `json:"nontrivial,omitempty"`
	Abstract   []string         `json:"abstract,omitempty"`
	Events     []string         `json:"events,omitempty"`
	History    json.RawMessage  `json:"history,omitempty"`
	Extra      json.RawMessage  `json:"extra,omitempty"`
	Foreign    int64            `json:"foreign,omitempty"`
	WallUs     int64            `json:"wall_us"`
	Done       bool             `json:"done,omitempty"`
	SiteHits   map[string]int64 `json:"site_hits,omitempty"`
	Strategy   string           `json:"strategy,omitempty"`
	Goroutines int              `json:"goroutines,omitempty"`
}

type knownFinding struct {
	Property    string `json:"property"`
	Clause      string `json:"clause"`
	DetailRegex string `json:"detail_regex"`
	Status      string `json:"status"` // known | fixed
	Commit      string `json:"commit,omitempty"`
	What        string `json:"what"`
}

type replayFile struct {
	Property  string     `json:"property"`
	Clause    string     `json:"clause"`
	Detail    string     `json:"detail"`
	Seed      int64      `json:"seed"`
	Scenario  *scenario  `json:"scenario"`
	Decisions []int32    `json:"decisions"`
	Hash      string     `json:"hash"`
	Events    []string   `json:"events,omitempty"`
	Shrink    shrinkInfo `json:"shrink"`
	RepoHead  string     `json:"repo_head"`
	Note      string     `json:"note"`
}

type shrinkInfo struct {
	ActorsBefore, ActorsAfter       int
	OpsBefore, OpsAfter             int
	DecisionsBefore, DecisionsAfter int
	NonZeroBefore, NonZeroAfter     int
	Candidates                      int
}

func infra(format string, args ...any) {
	fmt.Fprintf(os.Stderr, "verif: infrastructure error: "+format+"\n", args...)
	os.Exit(2)
}

func goEnv() []string {
	env := os.Environ()
	env = append(env, "GOFLAGS=-mod=mod", "GOPROXY=off", "GOSUMDB=off", "GOTOOLCHAIN=local",
		"PATH="+filepath.Dir(goBin)+":"+os.Getenv("PATH"))
	return env
}

// ---------------------------------------------------------------------------
// build

type built struct {
	bin     string
	sites   int
	files   []string
	hash    string
	scratch string
}

func worldTestPkg(world string) string {
	b, err := os.ReadFile(filepath.Join(verifRoot, "worlds", world, "world.json"))
	if err != nil {
		infra("%v", err)
	}
	var m struct {
		TestPkg string `json:"test_pkg"`
	}
	json.Unmarshal(b, &m)
	if m.TestPkg == "" {
		return "internal/core"
	}
	return m.TestPkg
}

func buildWorld(world string, race bool) *built {
	cacheRoot := filepath.Join(verifRoot, ".cache")
	os.MkdirAll(cacheRoot, 0o755)
	scratch, err := os.MkdirTemp(cacheRoot, "build-")
	if err != nil {
		infra("%v", err)
	}
	t0 := time.Now()
	cmd := exec.Command(filepath.Join(verifRoot, "bin/goinst"), "-repo", repoRoot, "-verif", verifRoot,
		"-cfg", filepath.Join(verifRoot, "worlds", world, "world.json"), "-out", scratch)
	out, err := cmd.CombinedOutput()
	if err != nil {
		os.RemoveAll(scratch)
		infra("goinst failed: %v\n%s", err, out)
	}
	// content hash of every overlay input
	ov, _ := os.ReadFile(filepath.Join(scratch, "overlay.json"))
	var om struct{ Replace map[string]string }
	json.Unmarshal(ov, &om)
	keys := make([]string, 0, len(om.Replace))
	for k := range om.Replace {
		keys = append(keys, k)
	}
	sort.Strings(keys)
	h := sha256.New()
	for _, k := range keys {
		data, _ := os.ReadFile(om.Replace[k])
		fmt.Fprintf(h, "%s %d\n", k, len(data))
		h.Write(data)
	}
	// un-instrumented sources of the repository also decide the binary
	gitHash := repoTreeHash()
	fmt.Fprintf(h, "tree %s race %v", gitHash, race)
	sum := hex.EncodeToString(h.Sum(nil))[:24]
	var meta struct {
		Sites        int      `json:"sites"`
		Instrumented []string `json:"instrumented"`
	}
	mb, _ := os.ReadFile(filepath.Join(scratch, "goinst.json"))
	json.Unmarshal(mb, &meta)

	binDir := filepath.Join(cacheRoot, "bin", sum)
	bin := filepath.Join(binDir, "world.test")
	b := &built{bin: bin, sites: meta.Sites, files: meta.Instrumented, hash: sum, scratch: scratch}
	if _, err = os.Stat(bin); err == nil {
		// mark it as recently used: the cache is pruned by age
		now := time.Now()
		os.Chtimes(binDir, now, now)
		fmt.Printf("verif: world %s (race=%v) binary cached %s (instrumentation %.1fs)\n", world, race, sum, time.Since(t0).Seconds())
		return b
	}
	os.MkdirAll(binDir, 0o755)
	args := []string{"test", "-c", "-vet=off", "-overlay", filepath.Join(scratch, "overlay.json"), "-o", bin + ".tmp"}
	if race {
		args = append(args, "-race")
	}
	args = append(args, "./"+worldTestPkg(world))
	c := exec.Command(goBin, args...)
	c.Dir = repoRoot
	c.Env = goEnv()
	out, err = c.CombinedOutput()
	if err != nil {
		os.RemoveAll(scratch)
		os.RemoveAll(binDir)
		infra("building world %s failed: %v\n%s", world, err, out)
	}
	os.Rename(bin+".tmp", bin)
	pruneCache(filepath.Join(cacheRoot, "bin"), 24)
	fmt.Printf("verif: world %s (race=%v) built %s in %.1fs (%d files instrumented, %d sites)\n", world, race, sum, time.Since(t0).Seconds(), len(meta.Instrumented), meta.Sites)
	return b
}

func repoTreeHash() string {
	// HEAD + diff of the working tree: anything that can change the binary
	h := sha256.New()
	for _, args := range [][]string{{"rev-parse", "HEAD"}, {"diff", "HEAD"}, {"status", "--porcelain"}} {
		c := exec.Command("git", append([]string{"-C", repoRoot}, args...)...)
		out, _ := c.Output()
		h.Write(out)
	}
	// untracked files content
	c := exec.Command("git", "-C", repoRoot, "ls-files", "--others", "--exclude-standard")
	out, _ := c.Output()
	for _, f := range strings.Fields(string(out)) {
		data, _ := os.ReadFile(filepath.Join(repoRoot, f))
		h.Write(data)
	}
	return hex.EncodeToString(h.Sum(nil))[:16]
}

func repoHead() string {
	out, _ := exec.Command("git", "-C", repoRoot, "rev-parse", "--short", "HEAD").Output()
	d, _ := exec.Command("git", "-C", repoRoot, "status", "--porcelain").Output()
	s := strings.TrimSpace(string(out))
	if len(bytes.TrimSpace(d)) > 0 {
		s += "+dirty"
	}
	return s
}

func pruneCache(dir string, keep int) {
	ents, err := os.ReadDir(dir)
	if err != nil || len(ents) <= keep {
		return
	}
	type e struct {
		name string
		t    time.Time
	}
	var es []e
	for _, x := range ents {
		info, err2 := x.Info()
		if err2 == nil {
			es = append(es, e{x.Name(), info.ModTime()})
		}
	}
	sort.Slice(es, func(a, b int) bool { return es[a].t.After(es[b].t) })
	for _, x := range es[keep:] {
		os.RemoveAll(filepath.Join(dir, x.name))
	}
}

// ---------------------------------------------------------------------------
// workers

var workerSeq int
var workerMu sync.Mutex

// runWorker runs one worker process on sp and returns its output lines.
// A worker that dies without its trailer line is an infrastructure error
// unless allowCrash is set (then crashed=true is returned).
func runWorker(b *built, sp *spec, wall time.Duration) (lines []*line, crashed bool, logText string) {
	workerMu.Lock()
	workerSeq++
	id := workerSeq
	workerMu.Unlock()
	dir := filepath.Join(b.scratch, fmt.Sprintf("w%d", id))
	os.MkdirAll(dir, 0o755)
	defer os.RemoveAll(dir)
	sp.Out = filepath.Join(dir, "out.jsonl")
	data, _ := json.Marshal(sp)
	specPath := filepath.Join(dir, "spec.json")
	os.WriteFile(specPath, data, 0o644)
	cmd := exec.Command(b.bin, "-test.run", "^TestSimWorld$", "-test.timeout", "0")
	cmd.Dir = dir
	cmd.Env = append(os.Environ(), "SIM_SPEC="+specPath, "GORACE=halt_on_error=0 log_path="+filepath.Join(dir, "race"), "TMPDIR="+dir)
	var outb bytes.Buffer
	cmd.Stdout = &outb
	cmd.Stderr = &outb
	if err := cmd.Start(); err != nil {
		infra("cannot start worker: %v", err)
	}
	done := make(chan error, 1)
	go func() { done <- cmd.Wait() }()
	select {
	case <-done:
	case <-time.After(wall):
		cmd.Process.Kill()
		<-done
		return readLines(sp.Out), true, "watchdog: worker killed after " + wall.String() + "\n" + tail(outb.String(), 4000)
	}
	lines = readLines(sp.Out)
	ok := len(lines) > 0 && lines[len(lines)-1].Done
	// race reports, if any
	if m, _ := filepath.Glob(filepath.Join(dir, "race.*")); len(m) > 0 {
		for _, f := range m {
			d, _ := os.ReadFile(f)
			logText += string(d)
		}
	}
	if !ok {
		return lines, true, logText + tail(outb.String(), 6000)
	}
	return lines, false, logText
}

func tail(s string, n int) string {
	if len(s) > n {
		return s[len(s)-n:]
	}
	return s
}

func readLines(path string) []*line {
	f, err := os.Open(path)
	if err != nil {
		return nil
	}
	defer f.Close()
	var out []*line
	sc := bufio.NewScanner(f)
	sc.Buffer(make([]byte, 1<<20), 1<<30)
	for sc.Scan() {
		var l line
		if err = json.Unmarshal(sc.Bytes(), &l); err == nil {
			out = append(out, &l)
		}
	}
	return out
}

// ---------------------------------------------------------------------------
// check

type stats struct {
	runs, nontrivial, stepCaps, foreign int64
	steps, simNs, wallUs                int64
	counters                            map[string]int64
	strategies                          map[string]int64
	orderHashes                         map[string]bool
	absStates                           map[string]bool
	siteHits                            map[string]int64
	samples                             []any
	hashes                              map[int64]string
	maxGoroutines                       int
	otherProps                          map[string]int64
	extra                               map[string]int64
}

func newStats() *stats {
	return &stats{counters: map[string]int64{}, strategies: map[string]int64{}, orderHashes: map[string]bool{},
		absStates: map[string]bool{}, siteHits: map[string]int64{}, hashes: map[int64]string{}, otherProps: map[string]int64{}, extra: map[string]int64{}}
}

func (s *stats) add(l *line) {
	if l.Done {
		for k, v := range l.SiteHits {
			s.siteHits[k] += v
		}
		return
	}
	s.runs++
	s.steps += l.Steps
	s.simNs += l.SimTimeNs
	s.wallUs += l.WallUs
	s.foreign += l.Foreign
	if l.StepCap {
		s.stepCaps++
	}
	for k, v := range l.Counters {
		s.counters[k] += v
	}
	s.strategies[l.Strategy]++
	if l.Goroutines > s.maxGoroutines {
		s.maxGoroutines = l.Goroutines
	}
	if l.Nontrivial {
		s.nontrivial++
		if len(l.Abstract) > 1 {
			s.orderHashes[l.Abstract[1]] = true
		}
	}
	if len(l.Abstract) > 0 {
		s.absStates[l.Abstract[0]] = true
	}
	s.hashes[l.Seed] = l.Hash
	if len(l.Extra) > 0 {
		var m map[string]any
		if json.Unmarshal(l.Extra, &m) == nil {
			for k, v := range m {
				if f, ok := v.(float64); ok {
					s.extra[k] += int64(f)
				}
			}
		}
	}
	if l.Scenario != nil && len(l.Violations) == 0 && len(s.samples) < 3 {
		var body any
		json.Unmarshal(l.Scenario.Body, &body)
		s.samples = append(s.samples, map[string]any{"seed": l.Seed, "sched": l.Scenario.Sched, "scenario": body,
			"steps": l.Steps, "decisions": l.NDecisions})
	}
}

func claims(p *propDef, v violation) bool {
	if v.Property == p.ID {
		return true
	}
	for _, c := range p.Claims {
		if c == v.Property {
			return true
		}
	}
	return false
}

func loadKnown() []knownFinding {
	b, err := os.ReadFile(filepath.Join(verifRoot, "known_findings.json"))
	if err != nil {
		return nil
	}
	var k struct {
		Findings []knownFinding `json:"findings"`
	}
	if err = json.Unmarshal(b, &k); err != nil {
		infra("known_findings.json: %v", err)
	}
	return k.Findings
}

func matchKnown(ks []knownFinding, v violation) *knownFinding {
	for i := range ks {
		k := &ks[i]
		if k.Status != "known" || k.Property != v.Property || k.Clause != v.Clause {
			continue
		}
		if k.DetailRegex != "" {
			if ok, _ := regexp.MatchString(k.DetailRegex, v.Detail); !ok {
				continue
			}
		}
		return k
	}
	return nil
}

func main() {
	if len(os.Args) < 2 {
		fmt.Fprintln(os.Stderr, "usage: verif check <property> --tier quick|thorough | verif replay <file> | verif selftest <world>")
		os.Exit(2)
	}
	switch os.Args[1] {
	case "check":
		cmdCheck(os.Args[2:])
	case "replay":
		cmdReplay(os.Args[2:])
	case "selftest":
		cmdSelftest(os.Args[2:])
	case "manifest":
		cmdManifest()
	case "warm":
		// build every (world, race) binary once so that checks start from a warm cache
		seen := map[string]bool{}
		ids := make([]string, 0, len(props))
		for id := range props {
			ids = append(ids, id)
		}
		sort.Strings(ids)
		for _, id := range ids {
			p := props[id]
			for _, wn := range append([]string{p.World}, p.Also...) {
				k := fmt.Sprintf("%s/%v", wn, p.Race)
				if seen[k] {
					continue
				}
				seen[k] = true
				b := buildWorld(wn, p.Race)
				os.RemoveAll(b.scratch)
			}
		}
	default:
		fmt.Fprintln(os.Stderr, "unknown command", os.Args[1])
		os.Exit(2)
	}
}

func cmdCheck(args []string) {
	if len(args) < 1 {
		infra("check: property id missing")
	}
	id := args[0]
	fs := flag.NewFlagSet("check", flag.ExitOnError)
	tier := fs.String("tier", os.Getenv("VERIF_TIER"), "quick|thorough")
	runsFlag := fs.Int("runs", 0, "override number of runs")
	wallFlag := fs.Float64("wall", 0, "override wall budget (s) of the run phase")
	noEvidence := fs.Bool("no-evidence", false, "do not rewrite the evidence file (development runs on modified trees)")
	fs.Parse(args[1:])
	if *tier == "" {
		*tier = "quick"
	}
	p := props[id]
	if p == nil {
		infra("unknown or unclaimed property %s", id)
	}
	baseSeed := int64(1)
	if s := os.Getenv("VERIF_SEED"); s != "" {
		if v, err := strconv.ParseInt(s, 10, 64); err == nil {
			baseSeed = v
		}
	}
	if *tier == "thorough" && os.Getenv("VERIF_SEED") == "" {
		baseSeed = 7
	}
	runs, wall := p.Quick, p.QuickS
	if *tier == "thorough" {
		runs, wall = p.Thorough, p.ThorS
	}
	if *runsFlag > 0 {
		runs = *runsFlag
	}
	if *wallFlag > 0 {
		wall = *wallFlag
	}
	t0 := time.Now()
	worlds := append([]string{p.World}, p.Also...)
	builts := map[string]*built{}
	for _, wn := range worlds {
		builts[wn] = buildWorld(wn, p.Race)
		defer os.RemoveAll(builts[wn].scratch)
	}
	b := builts[p.World]
	known := loadKnown()

	st := newStats()
	nw := runtime.NumCPU()
	if nw > 16 {
		nw = 16
	}
	chunk := int64(40)
	if p.Race {
		chunk = 15
	}
	if p.Chunk > 0 {
		chunk = p.Chunk
	}
	var mu sync.Mutex
	var found []*line // runs with violations claimed by this property
	var knownHits = map[string]int{}
	var infraErr string
	stop := false
	worldOf := func(seed int64) string {
		k := (seed - baseSeed*10_000_000) / 2_000_000
		if k < 0 || int(k) >= len(worlds) {
			k = 0
		}
		return worlds[k]
	}
	for wi, world := range worlds {
		bw := builts[world]
		// the first world gets the whole budget when it is alone, else 60%; the others share the rest
		share := 1.0
		if len(worlds) > 1 {
			share = 0.6
			if wi > 0 {
				share = 0.4 / float64(len(worlds)-1)
			}
		}
		first := baseSeed*10_000_000 + int64(wi)*2_000_000
		next := first
		end := first + int64(float64(runs)*share)
		deadline := time.Now().Add(time.Duration(wall * share * float64(time.Second)))
		var wg sync.WaitGroup
		for w := 0; w < nw; w++ {
			wg.Add(1)
			go func() {
				defer wg.Done()
				for {
					mu.Lock()
					if stop || next >= end || time.Now().After(deadline) {
						mu.Unlock()
						return
					}
					from := next
					cnt := chunk
					if from+cnt > end {
						cnt = end - from
					}
					next += cnt
					mu.Unlock()
					for cnt > 0 {
						sp := &spec{World: world, Property: p.ID, Tier: *tier, SeedFrom: from, SeedCount: cnt}
						lines, crashed, logText := runWorker(bw, sp, 10*time.Minute)
						mu.Lock()
						var last int64 = from - 1
						violated := false
						for _, l := range lines {
							st.add(l)
							if l.Done {
								continue
							}
							last = l.Seed
							for _, v := range l.Violations {
								if v.Property == "!" {
									infraErr = fmt.Sprintf("seed %d: %s: %s", l.Seed, v.Clause, v.Detail)
									stop = true
								} else if claims(p, v) {
									if k := matchKnown(known, v); k != nil {
										knownHits[k.Property+" "+k.What]++
									} else {
										violated = true
									}
								} else {
									st.otherProps[v.Property+":"+v.Clause]++
								}
							}
							if violated {
								found = append(found, l)
								stop = true
								break
							}
						}
						if crashed && !violated {
							infraErr = fmt.Sprintf("worker for seeds %d..%d died after seed %d:\n%s", from, from+cnt-1, last, logText)
							stop = true
						}
						if p.Race && logText != "" && !violated {
							// a race report without a recorded violation (outside a run)
							infraErr = "race detector report outside a simulated run:\n" + tail(logText, 3000)
							stop = true
						}
						done := last - from + 1
						from += done
						cnt -= done
						s := stop
						mu.Unlock()
						if s || done == 0 {
							return
						}
					}
				}
			}()
		}
		wg.Wait()
		if stop {
			break
		}
	}
	runWall := time.Since(t0).Seconds()
	if infraErr != "" {
		infra("%s", infraErr)
	}
	if st.runs == 0 {
		infra("no run completed")
	}

	// determinism recheck: 1% of the runs (at least 3) again in a fresh process
	nre := int(st.runs / 100)
	if nre < 3 {
		nre = 3
	}
	if nre > 200 {
		nre = 200
	}
	rechecked, mismatches := 0, 0
	if len(found) == 0 {
		seeds := make([]int64, 0, len(st.hashes))
		for s := range st.hashes {
			seeds = append(seeds, s)
		}
		sort.Slice(seeds, func(a, b int) bool { return seeds[a] < seeds[b] })
		rng := rand.New(rand.NewSource(baseSeed))
		rng.Shuffle(len(seeds), func(a, b int) { seeds[a], seeds[b] = seeds[b], seeds[a] })
		if len(seeds) > nre {
			seeds = seeds[:nre]
		}
		var wg2 sync.WaitGroup
		sem := make(chan struct{}, nw)
		for _, s := range seeds {
			wg2.Add(1)
			sem <- struct{}{}
			go func(s int64) {
				defer wg2.Done()
				defer func() { <-sem }()
				lines, _, _ := runWorker(builts[worldOf(s)], &spec{World: worldOf(s), Property: p.ID, Tier: *tier, SeedFrom: s, SeedCount: 1}, 5*time.Minute)
				mu.Lock()
				defer mu.Unlock()
				for _, l := range lines {
					if !l.Done && l.Seed == s {
						rechecked++
						if l.Hash != st.hashes[s] {
							mismatches++
							fmt.Fprintf(os.Stderr, "verif: determinism mismatch on seed %d: %s vs %s\n", s, st.hashes[s], l.Hash)
						}
					}
				}
			}(s)
		}
		wg2.Wait()
		if mismatches > 0 {
			infra("%d of %d re-executed runs produced a different event-log hash", mismatches, rechecked)
		}
	}

	nviol := 0
	var replayPath string
	if len(found) > 0 {
		sort.Slice(found, func(a, b int) bool { return found[a].Seed < found[b].Seed })
		l := found[0]
		var v violation
		for _, x := range l.Violations {
			if claims(p, x) && matchKnown(known, x) == nil {
				v = x
				break
			}
		}
		budget := 60 * time.Second
		if *tier == "thorough" {
			budget = 8 * time.Minute
		}
		replayPath = confirmShrinkWrite(builts[worldOf(l.Seed)], p, l, v, budget)
		nviol = 1
	}

	if !*noEvidence {
		writeEvidence(p, *tier, baseSeed, st, b, time.Since(t0).Seconds(), runWall, nviol, rechecked, knownHits, known)
	}
	kk := make([]string, 0, len(knownHits))
	for k := range knownHits {
		kk = append(kk, k)
	}
	sort.Strings(kk)
	for _, k := range kk {
		parts := strings.SplitN(k, " ", 2)
		fmt.Printf("KNOWN-FINDING: property=%s %s (re-observed in %d runs)\n", parts[0], parts[1], knownHits[k])
	}
	fmt.Printf("verif: %s %s: %d runs (%d non-trivial, %d distinct orders), %d steps, %.0fs simulated, %.1fs wall, %d rechecked\n",
		p.ID, *tier, st.runs, st.nontrivial, len(st.orderHashes), st.steps, float64(st.simNs)/1e9, time.Since(t0).Seconds(), rechecked)
	if nviol > 0 {
		fmt.Printf("VIOLATION property=%s replay=%s\n", p.ID, replayPath)
		os.Exit(1)
	}
	os.Exit(0)
}

// ---------------------------------------------------------------------------
// confirm, shrink, write replay

func hasViolation(l *line, p *propDef, clause string) *violation {
	for i := range l.Violations {
		if claims(p, l.Violations[i]) && l.Violations[i].Clause == clause {
			return &l.Violations[i]
		}
	}
	return nil
}

func replayOnce(b *built, sc *scenario, dec []int32, events bool) *line {
	lines, _, _ := runWorker(b, &spec{World: sc.World, Property: sc.Property, Scenario: sc, Decisions: dec, UseReplay: true, WithEvents: events}, 5*time.Minute)
	for _, l := range lines {
		if !l.Done {
			return l
		}
	}
	return nil
}

func countOps(body map[string]any) (actors, ops int) {
	as, _ := body["actors"].([]any)
	for _, a := range as {
		if m, ok := a.(map[string]any); ok && m["kind"] == "nop" {
			continue
		}
		actors++
		if m, ok := a.(map[string]any); ok {
			if o, ok2 := m["ops"].([]any); ok2 {
				ops += len(o)
			}
		}
	}
	for _, key := range []string{"ops", "arrivals", "phases"} {
		if o, ok := body[key].([]any); ok {
			ops += len(o)
		}
	}
	return
}

func nonZero(d []int32) int {
	n := 0
	for _, x := range d {
		if x != 0 {
			n++
		}
	}
	return n
}

func confirmShrinkWrite(b *built, p *propDef, l *line, v violation, budget time.Duration) string {
	t0 := time.Now()
	sc := l.Scenario
	dec := l.Decisions
	if v.Clause == "data-race" {
		// The schedule replays exactly (same event-log hash); the race detector's
		// own bookkeeping (bounded shadow history) is sampled, so its report may
		// need several replays to reappear. No shrinking for this clause.
		reappeared, n := 0, 6
		var events []string
		for i := 0; i < n; i++ {
			r := replayOnce(b, sc, dec, i == 0)
			if r == nil || r.Hash != l.Hash {
				infra("data-race run of seed %d does not replay with the same event log", l.Seed)
			}
			if i == 0 {
				events = r.Events
			}
			if hasViolation(r, p, v.Clause) != nil {
				reappeared++
			}
		}
		rf := &replayFile{Property: p.ID, Clause: v.Clause, Detail: v.Detail, Seed: l.Seed, Scenario: sc, Decisions: dec,
			Hash: l.Hash, Events: events, RepoHead: repoHead(),
			Note: fmt.Sprintf("the schedule replays exactly (event-log hash equal in %d of %d replays); the race detector reported the race again in %d of them (its shadow history is bounded, detection is sampled)", n, n, reappeared)}
		dir := filepath.Join(verifRoot, "replays")
		os.MkdirAll(dir, 0o755)
		path := filepath.Join(dir, fmt.Sprintf("%s-%s-%d.json", p.ID, v.Clause, l.Seed))
		data, _ := json.MarshalIndent(rf, "", " ")
		os.WriteFile(path, data, 0o644)
		fmt.Printf("verif: violation %s/%s seed %d (race report reappeared in %d of %d exact replays):\n%s\n", v.Property, v.Clause, l.Seed, reappeared, n, tail(v.Detail, 2500))
		return path
	}
	// 1. the recorded decisions must reproduce the violation and the event log
	r1 := replayOnce(b, sc, dec, false)
	if r1 == nil || hasViolation(r1, p, v.Clause) == nil || r1.Hash != l.Hash {
		got := "<no result>"
		if r1 != nil {
			got = fmt.Sprintf("hash %s violations %v", r1.Hash, r1.Violations)
		}
		infra("violation %s/%s of seed %d does not replay from its decision list (expected hash %s, got %s): the simulator is not deterministic here",
			v.Property, v.Clause, l.Seed, l.Hash, got)
	}
	info := shrinkInfo{DecisionsBefore: len(dec), NonZeroBefore: nonZero(dec)}
	var body map[string]any
	json.Unmarshal(sc.Body, &body)
	info.ActorsBefore, info.OpsBefore = countOps(body)

	// 2. scenario shrinking: drop actors / operations / versions, re-searching a few schedules
	try := func(cand map[string]any) (*line, bool) {
		info.Candidates++
		raw, _ := json.Marshal(cand)
		sc2 := *sc
		sc2.Body = raw
		// first the recorded decisions (they often still apply), then fresh schedules
		if r := replayOnce(b, &sc2, dec, false); r != nil && hasViolation(r, p, v.Clause) != nil {
			return r, true
		}
		seeds := []int64{11, 12, 13, 14, 15, 16}
		lines, _, _ := runWorker(b, &spec{World: sc.World, Property: sc.Property, Scenario: &sc2, SchedSeeds: seeds}, 5*time.Minute)
		for _, x := range lines {
			if !x.Done && hasViolation(x, p, v.Clause) != nil {
				return x, true
			}
		}
		return nil, false
	}
	clone := func(m map[string]any) map[string]any {
		raw, _ := json.Marshal(m)
		var out map[string]any
		json.Unmarshal(raw, &out)
		return out
	}
	cur := body
	progress := true
	for progress && time.Since(t0) < budget {
		progress = false
		as, _ := cur["actors"].([]any)
		for i := len(as) - 1; i >= 0 && time.Since(t0) < budget; i-- {
			if m, ok := as[i].(map[string]any); ok && m["kind"] == "nop" {
				continue
			}
			// an actor is neutralised in place so that the names and ids of the others stay the same
			cand := clone(cur)
			ca := cand["actors"].([]any)
			ca[i] = map[string]any{"kind": "nop", "ops": []any{}}
			if r, ok := try(cand); ok {
				cur, sc, dec, progress = cand, r.Scenario, r.Decisions, true
				as = cur["actors"].([]any)
			}
		}
		// top-level operation lists of the small worlds
		for _, key := range []string{"ops", "arrivals", "phases"} {
			lst, _ := cur[key].([]any)
			for j := len(lst) - 1; j >= 0 && len(lst) > 1 && time.Since(t0) < budget; j-- {
				cand := clone(cur)
				cl := cand[key].([]any)
				cand[key] = append(cl[:j:j], cl[j+1:]...)
				if r, ok := try(cand); ok {
					cur, sc, dec, progress = cand, r.Scenario, r.Decisions, true
					lst = cur[key].([]any)
				}
			}
		}
		as, _ = cur["actors"].([]any)
		for i := range as {
			am, _ := as[i].(map[string]any)
			ops, _ := am["ops"].([]any)
			for j := len(ops) - 1; j >= 0 && len(ops) > 1 && time.Since(t0) < budget; j-- {
				cand := clone(cur)
				cm := cand["actors"].([]any)[i].(map[string]any)
				co := cm["ops"].([]any)
				cm["ops"] = append(co[:j:j], co[j+1:]...)
				if r, ok := try(cand); ok {
					cur, sc, dec, progress = cand, r.Scenario, r.Decisions, true
					ops = cur["actors"].([]any)[i].(map[string]any)["ops"].([]any)
				}
			}
		}
	}
	// 3. decision shrinking: shorter list / more default (fair) decisions
	check := func(d []int32) (*line, bool) {
		info.Candidates++
		r := replayOnce(b, sc, d, false)
		return r, r != nil && hasViolation(r, p, v.Clause) != nil
	}
	for n := len(dec) / 2; n >= 1 && time.Since(t0) < budget; n /= 2 {
		for len(dec) > n && time.Since(t0) < budget {
			if r, ok := check(dec[:len(dec)-n]); ok {
				dec = r.Decisions
				if len(dec) > len(r.Decisions) {
					dec = dec[:len(r.Decisions)]
				}
				dec = trimZeros(dec)
			} else {
				break
			}
		}
	}
	for w := len(dec) / 2; w >= 1 && time.Since(t0) < budget; w /= 2 {
		for off := 0; off < len(dec) && time.Since(t0) < budget; off += w {
			allZero := true
			cand := append([]int32(nil), dec...)
			for i := off; i < off+w && i < len(cand); i++ {
				if cand[i] != 0 {
					allZero = false
				}
				cand[i] = 0
			}
			if allZero {
				continue
			}
			if _, ok := check(cand); ok {
				dec = cand
			}
		}
	}
	dec = trimZeros(dec)
	// 4. final replay (twice, fresh processes): must fail the same way with the same hash
	f1 := replayOnce(b, sc, dec, true)
	f2 := replayOnce(b, sc, dec, false)
	if f1 == nil || f2 == nil || hasViolation(f1, p, v.Clause) == nil || f1.Hash != f2.Hash {
		infra("minimised replay of %s/%s is not stable", v.Property, v.Clause)
	}
	fv := hasViolation(f1, p, v.Clause)
	json.Unmarshal(sc.Body, &body)
	info.ActorsAfter, info.OpsAfter = countOps(body)
	info.DecisionsAfter, info.NonZeroAfter = len(dec), nonZero(dec)
	rf := &replayFile{Property: p.ID, Clause: v.Clause, Detail: fv.Detail, Seed: l.Seed, Scenario: sc, Decisions: dec,
		Hash: f1.Hash, Events: f1.Events, Shrink: info, RepoHead: repoHead(),
		Note: "replay with: bin/verif replay <this file>; decisions beyond the list default to the fair choice (least recently run goroutine, no fault, canonical map order)"}
	dir := filepath.Join(verifRoot, "replays")
	os.MkdirAll(dir, 0o755)
	path := filepath.Join(dir, fmt.Sprintf("%s-%s-%d.json", p.ID, v.Clause, l.Seed))
	data, _ := json.MarshalIndent(rf, "", " ")
	os.WriteFile(path, data, 0o644)
	fmt.Printf("verif: violation %s/%s seed %d: %s\n", v.Property, v.Clause, l.Seed, firstLine(fv.Detail))
	fmt.Printf("verif: shrunk actors %d->%d ops %d->%d decisions %d->%d (non-default %d->%d) with %d candidates in %.0fs\n",
		info.ActorsBefore, info.ActorsAfter, info.OpsBefore, info.OpsAfter, info.DecisionsBefore, info.DecisionsAfter,
		info.NonZeroBefore, info.NonZeroAfter, info.Candidates, time.Since(t0).Seconds())
	return path
}

func trimZeros(d []int32) []int32 {
	for len(d) > 0 && d[len(d)-1] == 0 {
		d = d[:len(d)-1]
	}
	return d
}

func firstLine(s string) string {
	if i := strings.Index(s, "\n"); i >= 0 {
		return s[:i]
	}
	return s
}

func cmdReplay(args []string) {
	if len(args) < 1 {
		infra("replay: file missing")
	}
	data, err := os.ReadFile(args[0])
	if err != nil {
		infra("%v", err)
	}
	var rf replayFile
	if err = json.Unmarshal(data, &rf); err != nil {
		infra("%v", err)
	}
	p := props[rf.Property]
	if p == nil {
		infra("unknown property %s", rf.Property)
	}
	world := p.World
	if rf.Scenario != nil {
		for _, w := range p.Also {
			if w == rf.Scenario.World {
				world = w
			}
		}
	}
	b := buildWorld(world, p.Race)
	defer os.RemoveAll(b.scratch)
	r := replayOnce(b, rf.Scenario, rf.Decisions, true)
	if r == nil {
		infra("replay produced no result")
	}
	if rf.Clause == "data-race" {
		// the detector's report is sampled: replay the exact schedule a few more times
		for i := 0; i < 8 && hasViolation(r, p, rf.Clause) == nil; i++ {
			if r2 := replayOnce(b, rf.Scenario, rf.Decisions, true); r2 != nil {
				r = r2
			}
		}
	}
	for _, e := range r.Events {
		fmt.Println(e)
	}
	fmt.Printf("verif: replay hash %s (recorded %s)\n", r.Hash, rf.Hash)
	if v := hasViolation(r, p, rf.Clause); v != nil {
		fmt.Printf("verif: reproduced %s/%s: %s\n", v.Property, v.Clause, v.Detail)
		fmt.Printf("VIOLATION property=%s replay=%s\n", rf.Property, args[0])
		os.Exit(1)
	}
	fmt.Printf("verif: the violation %s/%s does not occur on the current tree\n", rf.Property, rf.Clause)
	os.Exit(0)
}

// cmdSelftest runs the same seeds in several processes at several GOMAXPROCS
// values and compares the event-log hashes.
func cmdSelftest(args []string) {
	if len(args) < 1 {
		infra("selftest: property missing")
	}
	p := props[args[0]]
	if p == nil {
		infra("unknown property %s", args[0])
	}
	n := int64(64)
	if len(args) > 1 {
		if v, err := strconv.ParseInt(args[1], 10, 64); err == nil {
			n = v
		}
	}
	b := buildWorld(p.World, p.Race)
	defer os.RemoveAll(b.scratch)
	ref := map[int64]string{}
	bad := 0
	total := 0
	for round, procs := range []string{"16", "1", "4", "16", "2", "8"} {
		os.Setenv("GOMAXPROCS", procs)
		var wg sync.WaitGroup
		var mu sync.Mutex
		for k := int64(0); k < 8; k++ {
			wg.Add(1)
			go func(k int64) {
				defer wg.Done()
				lines, crashed, lg := runWorker(b, &spec{World: p.World, Property: p.ID, Tier: "quick", SeedFrom: 5_000_000 + k*n/8, SeedCount: n / 8, KeepGoing: true}, 10*time.Minute)
				if crashed {
					fmt.Fprintf(os.Stderr, "worker crashed: %s\n", lg)
				}
				mu.Lock()
				defer mu.Unlock()
				for _, l := range lines {
					if l.Done {
						continue
					}
					total++
					h := l.Hash + fmt.Sprint(l.NDecisions)
					if round == 0 {
						ref[l.Seed] = h
					} else if ref[l.Seed] != h {
						bad++
						fmt.Printf("selftest: seed %d differs at GOMAXPROCS=%s: %s vs %s\n", l.Seed, procs, ref[l.Seed], h)
					}
				}
			}(k)
		}
		wg.Wait()
	}
	os.Unsetenv("GOMAXPROCS")
	fmt.Printf("selftest %s: %d executions of %d seeds in 6 rounds (GOMAXPROCS 16,1,4,16,2,8), %d mismatches\n", p.ID, total, len(ref), bad)
	if bad > 0 {
		os.Exit(2)
	}
}

// ---------------------------------------------------------------------------
// evidence

func writeEvidence(p *propDef, tier string, seed int64, st *stats, b *built, wall, runWall float64, nviol, rechecked int, knownHits map[string]int, known []knownFinding) {
	faults := map[string]int64{}
	for k, v := range st.counters {
		if strings.HasPrefix(k, "fault.") || strings.HasPrefix(k, "sched.") {
			faults[k] = v
		}
	}
	hit := 0
	var never []string
	for k, v := range st.siteHits {
		if v > 0 {
			hit++
		}
		_ = k
	}
	sites := b.sites
	_ = never
	samples := st.samples
	if len(samples) == 0 {
		samples = append(samples, map[string]any{"note": "no sample scenario was emitted by the workers in this run"})
	}
	var kf []string
	for k, n := range knownHits {
		kf = append(kf, fmt.Sprintf("%s (x%d)", k, n))
	}
	sort.Strings(kf)
	ev := map[string]any{
		"property_id": p.ID,
		"tier":        tier,
		"seed":        seed,
		"level":       p.Level,
		"wall_s":      wall,
		"violations":  nviol,
		"coverage": map[string]any{
			"evaluations":               st.runs,
			"distinct_nontrivial":       len(st.orderHashes),
			"rule":                      p.Rule,
			"samples":                   samples,
			"nontrivial_runs":           st.nontrivial,
			"runs_per_hour":             int64(float64(st.runs) / runWall * 3600),
			"sim_time_s":                float64(st.simNs) / 1e9,
			"scheduler_steps":           st.steps,
			"faults_fired":              faults,
			"counters":                  st.counters,
			"strategies":                st.strategies,
			"sites_instrumented":        sites,
			"sites_hit":                 hit,
			"distinct_event_orders":     len(st.orderHashes),
			"distinct_abstract_states":  len(st.absStates),
			"inconclusive_step_cap":     st.stepCaps,
			"foreign_yields":            st.foreign,
			"determinism_rechecks":      rechecked,
			"max_goroutines_per_run":    st.maxGoroutines,
			"other_property_signals":    st.otherProps,
			"extra_totals":              st.extra,
			"known_findings_reobserved": kf,
			"real_components":           p.Real,
			"stub_components":           p.Stubs,
			"instrumented_files":        b.files,
			"binary":                    b.hash,
			"repo_head":                 repoHead(),
			"race_detector":             p.Race,
		},
		"assumptions": []string{
			"the goinst rewrite (yields, lock model, ordered map iteration) preserves the semantics of the instrumented files",
			"the three-line runtime patch only changes the select poll order inside synctest bubbles",
			"stub components behave like the real ones at the interface the real code sees (see stub_components)",
			"a clean batch is evidence, not proof: schedules and faults are sampled, not enumerated",
		},
	}
	os.MkdirAll(filepath.Join(verifRoot, "evidence"), 0o755)
	data, _ := json.MarshalIndent(ev, "", " ")
	os.WriteFile(filepath.Join(verifRoot, "evidence", p.ID+".json"), data, 0o644)
}
