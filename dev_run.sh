#!/bin/bash
# dev helper: run seeds of a property on a built world binary: dev_run.sh <prop> <from> <count> [out]
OUT=${5:-/tmp/gi}
cat > $OUT/spec.json <<EOS
{"world":"w","property":"$1","tier":"quick","seed_from":$2,"seed_count":$3,"out":"$OUT/out.jsonl"$4}
EOS
rm -f $OUT/out.jsonl
( cd $OUT && rm -f race.* && GORACE="halt_on_error=0 log_path=$OUT/race" SIM_SPEC=$OUT/spec.json timeout 1800 ./world.test -test.run '^TestSimWorld$' 2>&1 | tail -30 )
python3 - <<EOP
import json
n=0
for l in open('$OUT/out.jsonl'):
    d=json.loads(l)
    if d.get('done'): print('done sites', len(d['site_hits'])); continue
    n+=1
    vs=[(v['property'],v['clause']) for v in d.get('violations',[])]
    if vs or n<=5: print(d['seed'], 'steps',d['steps'], 'sim',d['sim_time_ns']/1e9, 'us',d['wall_us'], d.get('nontrivial'), d.get('strategy'), 'cap' if d.get('step_cap') else '', vs)
    for v in d.get('violations',[])[:3]: print('   ', v['detail'][:1500])
print('runs', n)
EOP
