#!/bin/bash
# dev helper: apply a seeded change to /repo, run checks, undo. dev_mut.sh <patch> <tier> [--runs N] -- <prop>...
P=$1; TIER=$2; shift 2
EXTRA=()
while [ "$1" != "--" ] && [ $# -gt 0 ]; do EXTRA+=("$1"); shift; done
shift
[ -z "$(git -C /repo status --porcelain)" ] || { echo "repo dirty"; exit 2; }
git -C /repo apply "$P" || exit 2
for id in "$@"; do
  echo "== $id"
  /verif/bin/verif check $id --tier $TIER "${EXTRA[@]}" --no-evidence 2>&1 | grep -v "^  \|^$" | cut -c1-400 | tail -6
done
git -C /repo checkout -- .
git -C /repo status --porcelain
