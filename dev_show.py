import json,sys
d=json.load(open(sys.argv[1]))
pat=sys.argv[2:] 
b=d['scenario']['body']
print(d['property'],d['clause'],d['detail'][:500]); print(d['scenario']['sched'])
for i,v in enumerate(b['versions']): print('V',i,json.dumps(v['paths']))
for i,a in enumerate(b['actors']):
    if a['kind']!='nop': print('A',i,json.dumps(a))
for e in d['events']:
    if ' ev ' in e or ' stall' in e:
        if not pat or any(p in e for p in pat): print(e[:260])
