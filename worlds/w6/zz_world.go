package core

// W6 "reloadworld" (property C13): the real Core (New / run / reloadConf / closeResources /
// createResources / API edits), the real path manager, configuration watcher (over the
// simulated fsnotify), record cleaner, authentication manager and logger; every
// socket-owning component (RTSP(S), RTMP(S), HLS, WebRTC, SRT, MoQ servers, API, metrics,
// pprof, playback) is a recording stand-in generated from its real declaration.
//
// Workload: a history of configuration changes, by file and by API, in bursts whose members
// race each other under the seeded scheduler; optionally one component fails to start.
// Oracle, at every quiescent point (see w6Check): differential against a fresh start on the
// configuration the server holds, reference integrity, keep-running, life cycle.

import (
	"bytes"
	"encoding/json"
	"fmt"
	"math/rand"
	"net"
	"os"
	"os/signal"
	"path/filepath"
	"reflect"
	"sort"
	"strings"
	"sync"
	"sync/atomic"
	"testing"
	"time"

	"github.com/bluenviron/mediamtx/internal/api"
	"github.com/bluenviron/mediamtx/internal/auth"
	"github.com/bluenviron/mediamtx/internal/conf"
	"github.com/bluenviron/mediamtx/internal/conf/jsonwrapper"
	"github.com/bluenviron/mediamtx/internal/externalcmd"
	"github.com/bluenviron/mediamtx/internal/logger"
	"github.com/bluenviron/mediamtx/internal/zzsim/comprec"
	"github.com/bluenviron/mediamtx/internal/zzsim/fsnotify"
	"github.com/bluenviron/mediamtx/internal/zzsim/simrt"
)

func simWorldMain(t *testing.T) { simrt.WorkerMain(t, &w6World{}) }

// ---------------------------------------------------------------------------
// scenario

type w6Step struct {
	// file: the configuration file is rewritten with Globals/Paths (complete content);
	// global / defaults / padd / ppatch / preplace / pdelete: one API edit; nop: left by the shrinker
	Kind    string                       `json:"kind"`
	GapMs   int64                        `json:"gap_ms"`
	Name    string                       `json:"name,omitempty"`
	Mode    string                       `json:"mode,omitempty"` // file: write (default), rename, other
	Set     map[string]string            `json:"set,omitempty"`     // API payload: key -> JSON value
	Globals map[string]string            `json:"globals,omitempty"` // file content: key -> JSON value
	Paths   map[string]map[string]string `json:"paths,omitempty"`
}

type w6Burst struct {
	Steps []w6Step `json:"ops"`
	// kind of a component whose next start fails once ("" = none)
	Fail string `json:"fail,omitempty"`
}

type w6Body struct {
	Globals map[string]string            `json:"globals"`
	Paths   map[string]map[string]string `json:"paths"`
	Bursts  []w6Burst                    `json:"actors"`
	// content written to the file while the server is starting (nil = the file is left alone)
	Startup *w6Step `json:"startup,omitempty"`
}

type w6Param struct {
	key  string
	vals []string // JSON texts; the first is the default-like value
}

var w6Params = []w6Param{
	{"logLevel", []string{`"error"`, `"warn"`}},
	{"logStructured", []string{`false`, `true`}},
	{"logFile", []string{`"mediamtx.log"`, `"other.log"`}},
	{"sysLogPrefix", []string{`"mediamtx"`, `"mtx2"`}},
	{"dumpPackets", []string{`false`, `true`}},
	{"readTimeout", []string{`"10s"`, `"11s"`, `"12s"`}},
	{"writeTimeout", []string{`"10s"`, `"13s"`}},
	{"writeQueueSize", []string{`512`, `1024`}},
	{"udpMaxPayloadSize", []string{`1452`, `1400`}},
	{"udpReadBufferSize", []string{`0`, `65536`}},
	{"runOnConnect", []string{`""`, `"echo connected"`}},
	{"runOnConnectRestart", []string{`false`, `true`}},
	{"runOnDisconnect", []string{`""`, `"echo gone"`}},

	{"authMethod", []string{`"internal"`, `"http"`, `"jwt"`}},
	{"authInternalUsers", []string{
		`[{"user":"any","pass":"","ips":[],"permissions":[{"action":"publish","path":""},{"action":"read","path":""},{"action":"playback","path":""},{"action":"api","path":""},{"action":"metrics","path":""},{"action":"pprof","path":""}]}]`,
		`[{"user":"u1","pass":"p1","ips":[],"permissions":[{"action":"publish","path":""},{"action":"read","path":""}]},{"user":"any","pass":"","ips":["127.0.0.1/32"],"permissions":[{"action":"api","path":""}]}]`,
		`[{"user":"u2","pass":"p2","ips":[],"permissions":[{"action":"read","path":"p1"}]}]`,
		// a user with a hashed password (sha256 of "hp1", then of "hp2")
		`[{"user":"hu","pass":"sha256:74TxjzKT+Cgo7Ym4Y9DG6eD8wvFzidQ1PNqjXlhaXEU=","ips":[],"permissions":[{"action":"publish","path":""},{"action":"read","path":""},{"action":"api","path":""}]}]`,
		`[{"user":"hu","pass":"sha256:/Tf+0Ci37sZw++iyYcmkmplFJ5u7csIo9rtbpXCvKrY=","ips":[],"permissions":[{"action":"publish","path":""},{"action":"read","path":""},{"action":"api","path":""}]}]`}},
	{"authHTTPAddress", []string{`"http://auth.local/a"`, `"http://auth.local/b"`}},
	{"authHTTPFingerprint", []string{`""`, `"33949e05fffb5ff3e8aa16f8213a6251b4d9363804ba53233c4da9a46d6f2739"`}},
	{"authHTTPExclude", []string{`[{"action":"api","path":""},{"action":"metrics","path":""},{"action":"pprof","path":""}]`, `[{"action":"api","path":""}]`, `[]`}},
	{"authJWTJWKS", []string{`"http://jwks.local/a"`, `"http://jwks.local/b"`}},
	{"authJWTJWKSFingerprint", []string{`""`, `"33949e05fffb5ff3e8aa16f8213a6251b4d9363804ba53233c4da9a46d6f2739"`}},
	{"authJWTClaimKey", []string{`"mediamtx_permissions"`, `"perms"`}},
	{"authJWTExclude", []string{`[]`, `[{"action":"pprof","path":""}]`}},
	{"authJWTInHTTPQuery", []string{``, `true`, `false`}},
	{"authJWTIssuer", []string{`""`, `"issuer1"`}},
	{"authJWTAudience", []string{`""`, `"aud1"`}},

	{"api", []string{`false`, `true`}},
	{"apiAddress", []string{`":9997"`, `":19997"`}},
	{"apiEncryption", []string{`false`, `true`}},
	{"apiServerKey", []string{`"server.key"`, `"api.key"`}},
	{"apiServerCert", []string{`"server.crt"`, `"api.crt"`}},
	{"apiAllowOrigins", []string{`["*"]`, `["https://a.example"]`, `["https://a.example","https://b.example"]`}},
	{"apiTrustedProxies", []string{`[]`, `["10.0.0.0/8"]`}},

	{"metrics", []string{`false`, `true`}},
	{"metricsAddress", []string{`":9998"`, `":19998"`}},
	{"metricsEncryption", []string{`false`, `true`}},
	{"metricsServerKey", []string{`"server.key"`, `"metrics.key"`}},
	{"metricsServerCert", []string{`"server.crt"`, `"metrics.crt"`}},
	{"metricsAllowOrigins", []string{`["*"]`, `["https://m.example"]`}},
	{"metricsTrustedProxies", []string{`[]`, `["10.1.0.0/16"]`}},

	{"pprof", []string{`false`, `true`}},
	{"pprofAddress", []string{`":9999"`, `":19999"`}},
	{"pprofEncryption", []string{`false`, `true`}},
	{"pprofServerKey", []string{`"server.key"`, `"pprof.key"`}},
	{"pprofServerCert", []string{`"server.crt"`, `"pprof.crt"`}},
	{"pprofAllowOrigins", []string{`["*"]`, `["https://p.example"]`}},
	{"pprofTrustedProxies", []string{`[]`, `["10.2.0.0/16"]`}},

	{"playback", []string{`false`, `true`}},
	{"playbackAddress", []string{`":9996"`, `":19996"`}},
	{"playbackEncryption", []string{`false`, `true`}},
	{"playbackServerKey", []string{`"server.key"`, `"pb.key"`}},
	{"playbackServerCert", []string{`"server.crt"`, `"pb.crt"`}},
	{"playbackAllowOrigins", []string{`["*"]`, `["https://pb.example"]`}},
	{"playbackTrustedProxies", []string{`[]`, `["10.3.0.0/16"]`}},

	{"rtsp", []string{`false`, `true`}},
	{"rtspTransports", []string{`["udp","multicast","tcp"]`, `["tcp"]`, `["udp","tcp"]`}},
	{"rtspEncryption", []string{`"no"`, `"optional"`, `"strict"`}},
	{"rtspAddress", []string{`":8554"`, `":18554"`}},
	{"rtspsAddress", []string{`":8322"`, `":18322"`}},
	{"rtpAddress", []string{`":8000"`, `":18000"`}},
	{"rtcpAddress", []string{`":8001"`, `":18001"`}},
	{"multicastIPRange", []string{`"224.1.0.0/16"`, `"224.2.0.0/16"`}},
	{"multicastRTPPort", []string{`8002`, `18002`}},
	{"multicastRTCPPort", []string{`8003`, `18003`}},
	{"srtpAddress", []string{`":8004"`, `":18004"`}},
	{"srtcpAddress", []string{`":8005"`, `":18005"`}},
	{"multicastSRTPPort", []string{`8006`, `18006`}},
	{"multicastSRTCPPort", []string{`8007`, `18007`}},
	{"rtspServerKey", []string{`"server.key"`, `"rtsp.key"`}},
	{"rtspServerCert", []string{`"server.crt"`, `"rtsp.crt"`}},
	{"rtspAuthMethods", []string{`["basic"]`, `["basic","digest"]`}},
	{"rtspTrustedProxies", []string{`[]`, `["10.4.0.0/16"]`}},
	{"rtspUDPReadBufferSize", []string{``, ``, `4096`, `8192`}},

	{"rtmp", []string{`false`, `true`}},
	{"rtmpEncryption", []string{`"no"`, `"optional"`, `"strict"`}},
	{"rtmpAddress", []string{`":1935"`, `":11935"`}},
	{"rtmpsAddress", []string{`":1936"`, `":11936"`}},
	{"rtmpServerKey", []string{`"server.key"`, `"rtmp.key"`}},
	{"rtmpServerCert", []string{`"server.crt"`, `"rtmp.crt"`}},
	{"rtmpTrustedProxies", []string{`[]`, `["10.5.0.0/16"]`}},

	{"hls", []string{`false`, `true`}},
	{"hlsAddress", []string{`":8888"`, `":18888"`}},
	{"hlsEncryption", []string{`false`, `true`}},
	{"hlsServerKey", []string{`"server.key"`, `"hls.key"`}},
	{"hlsServerCert", []string{`"server.crt"`, `"hls.crt"`}},
	{"hlsAllowOrigins", []string{`["*"]`, `["https://h.example"]`}},
	{"hlsTrustedProxies", []string{`[]`, `["10.6.0.0/16"]`}},
	{"hlsAlwaysRemux", []string{`false`, `true`}},
	{"hlsVariant", []string{`"lowLatency"`, `"mpegts"`, `"fmp4"`}},
	{"hlsSegmentCount", []string{`7`, `9`}},
	{"hlsSegmentDuration", []string{`"1s"`, `"2s"`}},
	{"hlsPartDuration", []string{`"200ms"`, `"300ms"`}},
	{"hlsSegmentMaxSize", []string{`"50M"`, `"60M"`}},
	{"hlsDirectory", []string{`""`, `"/tmp/hlsdir"`}},
	{"hlsMuxerCloseAfter", []string{`"60s"`, `"70s"`}},
	{"hlsCDNSecret", []string{`""`, `"cdnsecret"`}},

	{"webrtc", []string{`false`, `true`}},
	{"webrtcAddress", []string{`":8889"`, `":18889"`}},
	{"webrtcEncryption", []string{`false`, `true`}},
	{"webrtcServerKey", []string{`"server.key"`, `"wr.key"`}},
	{"webrtcServerCert", []string{`"server.crt"`, `"wr.crt"`}},
	{"webrtcAllowOrigins", []string{`["*"]`, `["https://w.example"]`}},
	{"webrtcTrustedProxies", []string{`[]`, `["10.7.0.0/16"]`}},
	{"webrtcLocalUDPAddress", []string{`":8189"`, `":18189"`}},
	{"webrtcLocalTCPAddress", []string{`""`, `":8189"`}},
	{"webrtcIPsFromInterfaces", []string{`true`, `false`}},
	{"webrtcIPsFromInterfacesList", []string{`[]`, `["eth0"]`}},
	{"webrtcAdditionalHosts", []string{`["host1.example"]`, `["host1.example","host2.example"]`}},
	{"webrtcICEServers2", []string{`[]`, `[{"url":"stun:stun.example:3478","username":"","password":"","clientOnly":false}]`}},
	{"webrtcSTUNGatherTimeout", []string{`"5s"`, `"6s"`}},
	{"webrtcHandshakeTimeout", []string{`"10s"`, `"11s"`}},
	{"webrtcTrackGatherTimeout", []string{`"2s"`, `"3s"`}},

	{"srt", []string{`false`, `true`}},
	{"srtAddress", []string{`":8890"`, `":18890"`}},

	{"moq", []string{`false`, `true`}},
	{"moqHTTP2Address", []string{`""`, `":4433"`}},
	{"moqHTTP3Address", []string{`""`, `":4434"`}},
	{"moqQUICAddress", []string{`":4443"`, `":14443"`}},
	{"moqServerKey", []string{`"server.key"`, `"moq.key"`}},
	{"moqServerCert", []string{`"server.crt"`, `"moq.crt"`}},
	{"moqAllowOrigins", []string{`["*"]`, `["https://q.example"]`}},
	{"moqTrustedProxies", []string{`[]`, `["10.8.0.0/16"]`}},
}

// keys whose value must not be patched through the API in this workload (deprecated aliases
// are rejected there or mean something else)
var w6FileOnly = map[string]bool{"rtspUDPReadBufferSize": true, "authJWTInHTTPQuery": true}

var w6EnableKeys = []string{"api", "metrics", "pprof", "playback", "rtsp", "rtmp", "hls", "webrtc", "srt", "moq"}

var w6PathNames = []string{"p1", "p2", "~^r([0-9]+)$", "all_others"}

func w6PathFields(rng *rand.Rand) map[string]string {
	f := map[string]string{}
	if rng.Intn(2) == 0 {
		f["maxReaders"] = fmt.Sprint(rng.Intn(4))
	}
	if rng.Intn(3) == 0 {
		f["recordDeleteAfter"] = []string{`"0s"`, `"24h"`, `"48h"`}[rng.Intn(3)]
	}
	if rng.Intn(4) == 0 {
		f["overridePublisher"] = []string{"true", "false"}[rng.Intn(2)]
	}
	// parameters a live path takes over in place
	if rng.Intn(3) == 0 {
		f["recordPartDuration"] = []string{`"1s"`, `"2s"`, `"500ms"`}[rng.Intn(3)]
	}
	if rng.Intn(3) == 0 {
		f["rpiCameraBrightness"] = []string{`0`, `0.25`, `0.5`}[rng.Intn(3)]
	}
	return f
}

// w6HotFields: only parameters that a live path applies without being re-created.
func w6HotFields(rng *rand.Rand, uniq int) map[string]string {
	f := map[string]string{"rpiCameraContrast": fmt.Sprintf("%d.5", 1+uniq%9)}
	if rng.Intn(2) == 0 {
		f["recordPartDuration"] = []string{`"1s"`, `"2s"`, `"500ms"`}[rng.Intn(3)]
	}
	if rng.Intn(3) == 0 {
		f["recordDeleteAfter"] = []string{`"24h"`, `"48h"`}[rng.Intn(2)]
	}
	return f
}

func w6CopyG(m map[string]string) map[string]string {
	o := map[string]string{}
	for k, v := range m {
		o[k] = v
	}
	return o
}

func w6CopyP(m map[string]map[string]string) map[string]map[string]string {
	o := map[string]map[string]string{}
	for k, v := range m {
		o[k] = w6CopyG(v)
	}
	return o
}

func (w *w6World) Gen(rng *rand.Rand, property, tier string) (any, simrt.Sched) {
	b := &w6Body{Globals: map[string]string{}, Paths: map[string]map[string]string{}}
	// initial configuration: every parameter explicit, a random subset of servers enabled
	for _, p := range w6Params {
		v := p.vals[0]
		if rng.Intn(5) == 0 {
			v = p.vals[rng.Intn(len(p.vals))]
		}
		b.Globals[p.key] = v
	}
	for _, k := range w6EnableKeys {
		b.Globals[k] = []string{"false", "true", "true"}[rng.Intn(3)]
	}
	b.Globals["logLevel"] = `"error"`
	for _, n := range w6PathNames[:1+rng.Intn(len(w6PathNames))] {
		b.Paths[n] = w6PathFields(rng)
	}
	fileG, fileP := w6CopyG(b.Globals), w6CopyP(b.Paths)
	mutate := func(g map[string]string, n int) map[string]string {
		changed := map[string]string{}
		for i := 0; i < n; i++ {
			p := w6Params[rng.Intn(len(w6Params))]
			v := p.vals[rng.Intn(len(p.vals))]
			g[p.key] = v
			changed[p.key] = v
		}
		return changed
	}
	if (property == "C38" && rng.Intn(3) == 0) || (property == "C13" && rng.Intn(12) == 0) {
		// the file is rewritten once more while the server starts
		mutate(fileG, 1+rng.Intn(3))
		b.Startup = &w6Step{Kind: "file", Globals: w6CopyG(fileG), Paths: w6CopyP(fileP)}
	}
	nb := 1 + rng.Intn(4)
	if property == "C12" {
		nb = 3 + rng.Intn(4)
	}
	for i := 0; i < nb; i++ {
		var bu w6Burst
		ns := 1
		if rng.Intn(3) == 0 && property != "C12" {
			ns = 2 + rng.Intn(2)
		}
		for j := 0; j < ns; j++ {
			st := w6Step{GapMs: []int64{0, 0, 1, 20, 500, 1500}[rng.Intn(6)]}
			k := rng.Intn(10)
			if property == "C12" {
				// exactness of API edits over every global parameter: one patch at a time,
				// now and then a rewrite of the file in between
				k = []int{4, 4, 4, 4, 0}[rng.Intn(5)]
			}
			if property == "C38" {
				// the watcher inside the server: file rewrites only, around the 10 ms and 1 s thresholds
				k = 0
				st.GapMs = []int64{0, 1, 9, 11, 500, 990, 1010, 1500, 2500}[rng.Intn(9)]
			}
			switch {
			case k < 4: // file rewrite
				st.Kind = "file"
				st.Mode = []string{"", "", "", "rename", "other"}[rng.Intn(5)]
				if property == "C38" {
					st.Mode = []string{"", "rename", "other"}[rng.Intn(3)]
				}
				n := []int{0, 1, 1, 1, 2, 3, 8, 30}[rng.Intn(8)]
				mutate(fileG, n)
				if rng.Intn(3) == 0 {
					name := w6PathNames[rng.Intn(len(w6PathNames))]
					if _, ok := fileP[name]; ok && rng.Intn(2) == 0 && len(fileP) > 0 {
						delete(fileP, name)
					} else {
						fileP[name] = w6PathFields(rng)
					}
				}
				st.Globals, st.Paths = w6CopyG(fileG), w6CopyP(fileP)
			case k < 7: // API global patch
				st.Kind = "global"
				tmp := map[string]string{}
				st.Set = mutate(tmp, []int{1, 1, 1, 2, 3, 6}[rng.Intn(6)])
				for key, v := range st.Set {
					if w6FileOnly[key] || v == "" {
						delete(st.Set, key)
					}
				}
				if len(st.Set) == 0 {
					st.Set["readTimeout"] = `"14s"`
				}
				if property == "C12" && rng.Intn(8) == 0 {
					// a parameter under its old name (still accepted by the file loader and by the API)
					st.Set = map[string]string{"readBufferCount": "256"}
				}
			case k < 8:
				st.Kind = "defaults"
				st.Set = w6PathFields(rng)
				if len(st.Set) == 0 {
					st.Set["maxReaders"] = "5"
				}
			default:
				st.Kind = []string{"padd", "ppatch", "preplace", "pdelete"}[rng.Intn(4)]
				st.Name = []string{"p1", "p2", "p3", "~^r([0-9]+)$"}[rng.Intn(4)]
				if st.Kind != "pdelete" {
					st.Set = w6PathFields(rng)
				}
			}
			bu.Steps = append(bu.Steps, st)
		}
		if property == "C13" && rng.Intn(6) == 0 {
			// a burst of patches of one live path that only touch parameters applied in place
			bu.Steps = nil
			for j, n := 0, 2+rng.Intn(2); j < n; j++ {
				bu.Steps = append(bu.Steps, w6Step{Kind: "ppatch", Name: "p1", GapMs: []int64{0, 0, 0, 1}[rng.Intn(4)], Set: w6HotFields(rng, i*4+j)})
			}
		}
		if property == "C13" && rng.Intn(12) == 0 {
			bu.Fail =[]string{"rtsp.Server", "rtmp.Server", "hls.Server", "webrtc.Server", "srt.Server", "moq.Server", "api.API", "metrics.Metrics", "pprof.PPROF", "playback.Server"}[rng.Intn(10)]
		}
		b.Bursts = append(b.Bursts, bu)
	}
	sched := simrt.DefaultSched(rng)
	sched.MaxSteps = 400000
	// quiescent points are found by waiting on the simulated clock: runnable goroutines must
	// not be held back while it runs
	sched.StallProb = 0
	return b, sched
}

func w6Render(g map[string]string, paths map[string]map[string]string) string {
	var b strings.Builder
	keys := make([]string, 0, len(g))
	for k := range g {
		keys = append(keys, k)
	}
	sort.Strings(keys)
	for _, k := range keys {
		if g[k] == "" {
			continue
		}
		fmt.Fprintf(&b, "%s: %s\n", k, g[k])
	}
	b.WriteString("paths:\n")
	names := make([]string, 0, len(paths))
	for n := range paths {
		names = append(names, n)
	}
	sort.Strings(names)
	for _, n := range names {
		fmt.Fprintf(&b, "  %q:\n", n)
		pf := paths[n]
		fk := make([]string, 0, len(pf))
		for k := range pf {
			fk = append(fk, k)
		}
		sort.Strings(fk)
		for _, k := range fk {
			fmt.Fprintf(&b, "    %s: %s\n", k, pf[k])
		}
	}
	return b.String()
}

func w6Payload(set map[string]string) string {
	keys := make([]string, 0, len(set))
	for k := range set {
		keys = append(keys, k)
	}
	sort.Strings(keys)
	var parts []string
	for _, k := range keys {
		parts = append(parts, fmt.Sprintf("%q:%s", k, set[k]))
	}
	return "{" + strings.Join(parts, ",") + "}"
}

// ---------------------------------------------------------------------------
// observation

type w6SlotState struct {
	addr uintptr
	args map[string]string // key -> canonical text ("" map when the slot is empty)
	info *comprec.Info     // nil for real components
	// path manager only: the live paths and the configuration each runs with
	pathNames []string
	pathConfs map[string]string
}

type w6Snapshot struct {
	conf  *conf.Conf
	slots map[string]*w6SlotState
	// what the authentication manager answers to a fixed set of questions
	authAnswers string
}

var w6PlanCache *w6Plan

// extra state of real components that is not a literal key but holds a reference
var w6ExtraFields = map[string][]string{"pathManager": {"hlsServer"}}

func w6CoreField(p *Core, name string) reflect.Value {
	return reflect.ValueOf(p).Elem().FieldByName(name)
}

// w6Namer names the addresses a component of core p may legitimately reference.
type w6Past struct {
	addr uintptr
	name string
}

func w6Namer(p *Core, plan *w6Plan, past []w6Past) comprec.RefNamer {
	names := map[uintptr]string{}
	for _, pa := range past {
		names[pa.addr] = pa.name
	}
	for _, i := range comprec.All() {
		names[comprec.Addr(i.Ptr)] = fmt.Sprintf("stale:%s", i.Kind)
	}
	names[reflect.ValueOf(p).Pointer()] = "core"
	for _, n := range append([]string{"externalCmdPool"}, plan.Names...) {
		v := w6CoreField(p, n)
		if v.IsValid() && v.Kind() == reflect.Pointer && !v.IsNil() {
			names[v.Pointer()] = n
		}
	}
	return func(addr uintptr) (string, bool) {
		n, ok := names[addr]
		return n, ok
	}
}

func w6Snap(p *Core, plan *w6Plan, past []w6Past) *w6Snapshot {
	sn := &w6Snapshot{conf: p.conf.Load(), slots: map[string]*w6SlotState{}}
	namer := w6Namer(p, plan, past)
	for _, n := range plan.Names {
		v := w6CoreField(p, n)
		st := &w6SlotState{args: map[string]string{}}
		sn.slots[n] = st
		if !v.IsValid() || v.IsNil() {
			continue
		}
		st.addr = v.Pointer()
		ev := v.Elem()
		for _, k := range append(append([]string{}, plan.Slots[n].Keys...), w6ExtraFields[n]...) {
			f := ev.FieldByName(k)
			if !f.IsValid() {
				st.args[k] = "<no such field>"
				continue
			}
			st.args[k] = comprec.Render(f, namer)
		}
		if n == "pathManager" {
			// the configuration every live path runs with (paths apply reloads in place)
			if pm := ev.FieldByName("paths"); pm.IsValid() && pm.Kind() == reflect.Map {
				var names []string
				confs := map[string]string{}
				it := pm.MapRange()
				for it.Next() {
					pa := it.Value()
					if pa.Kind() == reflect.Pointer && !pa.IsNil() {
						if cf := pa.Elem().FieldByName("conf"); cf.IsValid() {
							names = append(names, it.Key().String())
							confs[it.Key().String()] = comprec.Render(cf, namer)
						}
					}
				}
				sort.Strings(names)
				st.pathNames, st.pathConfs = names, confs
			}
		}
		if v.CanInterface() {
			st.info = comprec.Lookup(v.Interface())
		} else {
			// unexported field of Core: look the address up among the recorded instances
			for _, i := range comprec.All() {
				if comprec.Addr(i.Ptr) == st.addr {
					st.info = i
				}
			}
		}
		if st.info != nil && len(st.info.BackRefs) > 0 {
			st.args["~told-about"] = comprec.Render(reflect.ValueOf(st.info.BackRefs), namer)
		}
	}
	return sn
}

// w6Fresh starts a second server on configuration c (the same createResources, from
// nothing), renders its components and closes it again.
func w6Fresh(p *Core, plan *w6Plan, c *conf.Conf, universe *int) (*w6Snapshot, error) {
	*universe = 2
	defer func() { *universe = 1 }()
	f := &Core{supportsIPv6: p.supportsIPv6, done: make(chan struct{})}
	f.externalCmdPool = &externalcmd.Pool{}
	f.externalCmdPool.Initialize()
	f.conf.Store(c)
	err := f.createResources(false)
	var sn *w6Snapshot
	if err == nil {
		sn = w6Snap(f, plan, nil)
		sn.authAnswers = w6AuthProbe(f)
	}
	f.closeResources(nil)
	return sn, err
}

// w6AuthProbe asks an authentication manager (internal method only: the others would go to
// the network) a fixed set of questions and returns its answers as text. Arguments and
// reloaded fields can be equal while the behaviour is not (a cache that survives an in-place
// reload of the user list): the running manager must answer like one created from nothing.
func w6AuthProbe(core *Core) string {
	v := w6CoreField(core, "authManager")
	if !v.IsValid() || v.IsNil() {
		return "absent"
	}
	m := core.authManager
	if m.Method != conf.AuthMethodInternal {
		return fmt.Sprintf("method %v", m.Method)
	}
	var sb strings.Builder
	for _, c := range [][2]string{{"", ""}, {"u1", "p1"}, {"u1", "p2"}, {"u2", "p2"}, {"hu", "hp1"}, {"hu", "hp2"}, {"hu", "x"}} {
		for _, q := range []struct {
			act  conf.AuthAction
			path string
		}{{conf.AuthActionPublish, "p1"}, {conf.AuthActionRead, "p1"}, {conf.AuthActionRead, "p2"}, {conf.AuthActionAPI, ""}} {
			_, err := m.Authenticate(&auth.Request{Action: q.act, Path: q.path, Protocol: auth.ProtocolRTMP,
				Credentials: &auth.Credentials{User: c[0], Pass: c[1]}, IP: net.ParseIP("192.168.3.3")})
			if err == nil {
				sb.WriteString("1")
			} else {
				sb.WriteString("0")
			}
		}
		sb.WriteString(" ")
	}
	return sb.String()
}

func w6Short(s string) string {
	if len(s) > 160 {
		return s[:160] + "..."
	}
	return s
}

// w6Diff shows two long renderings around their first difference.
func w6Diff(a, b string) (string, string) {
	if len(a) <= 160 && len(b) <= 160 {
		return a, b
	}
	i := 0
	for i < len(a) && i < len(b) && a[i] == b[i] {
		i++
	}
	from := i - 60
	if from < 0 {
		from = 0
	}
	cut := func(s string) string {
		to := i + 100
		if to > len(s) {
			to = len(s)
		}
		if from >= len(s) {
			return "(ends earlier)"
		}
		pre := ""
		if from > 0 {
			pre = "..."
		}
		return pre + s[from:to] + "..."
	}
	return cut(a), cut(b)
}

// ---------------------------------------------------------------------------

type w6World struct{}

func (w *w6World) Run(t *testing.T, sc *simrt.Scenario, cfg simrt.Config) simrt.Outcome {
	var b w6Body
	if err := json.Unmarshal(sc.Body, &b); err != nil {
		return simrt.Outcome{Violations: []simrt.Violation{{Property: "!", Clause: "bad-scenario", Detail: err.Error()}}}
	}
	if w6PlanCache == nil {
		pl, err := w6Analyze(zzCoreSrc)
		if err != nil {
			return simrt.Outcome{Violations: []simrt.Violation{{Property: "!", Clause: "infra", Detail: "reading createResources: " + err.Error()}}}
		}
		w6PlanCache = pl
	}
	plan := w6PlanCache
	{
		// start the os/signal routine outside the bubble: it never blocks durably
		c := make(chan os.Signal, 1)
		signal.Notify(c, os.Interrupt)
		signal.Stop(c)
	}
	checkpoints, reloads, recreated, kept, accepted, fileLoads, exactChecks := 0, 0, 0, 0, 0, 0, 0
	exited := false
	failFired := 0
	res := simrt.Run(t, cfg, func() {
		dir := filepath.Join(os.TempDir(), "w6run")
		os.RemoveAll(dir)
		os.MkdirAll(dir, 0o755)
		defer os.RemoveAll(dir)
		confPath := filepath.Join(dir, "mediamtx.yml")
		os.WriteFile(confPath, []byte(w6Render(b.Globals, b.Paths)), 0o644)
		fsnotify.SimReset()
		comprec.Reset()
		api.ZZReset()
		universe := 1
		uni := map[*comprec.Info]int{}
		failKind := ""
		comprec.OnEvent = func(what string, i *comprec.Info) {
			if what == "init" {
				uni[i] = universe
			}
			if universe == 1 {
				simrt.Rec("comp."+what, i.Kind, "", int64(i.Seq), 0, 0)
			}
		}
		comprec.FailInit = func(kind string, comp any) error {
			if universe == 1 && failKind != "" && kind == failKind {
				failKind = ""
				failFired++
				simrt.Count("fault.component-start-failure", 1)
				simrt.Rec("comp.fail", kind, "", 0, 0, 0)
				return fmt.Errorf("simulated start failure of %s", kind)
			}
			return nil
		}
		// optionally the file is rewritten while the server starts (the scheduler decides when
		// exactly: before the file is read, or between its reading and the creation of the watcher)
		startupWritten := make(chan struct{})
		if b.Startup != nil {
			go func() {
				defer close(startupWritten)
				simrt.Yield("core/zz_world.go:startup-write")
				os.WriteFile(confPath, []byte(w6Render(b.Startup.Globals, b.Startup.Paths)), 0o644)
				simrt.Rec("startup.write", "", "", 0, 0, 0)
				// a watch that is already established reports the write
				if sw := fsnotify.SimWatchers(); len(sw) == 1 && len(sw[0].Dirs()) > 0 {
					select {
					case sw[0].Events <- fsnotify.Event{Name: confPath, Op: fsnotify.Write}:
					case <-time.After(10 * time.Second):
					}
				}
			}()
		} else {
			close(startupWritten)
		}
		p, ok := New([]string{confPath})
		if !ok {
			// the generator only produces configurations it believes valid, but the server decides
			simrt.Rec("start.refused", "", "", 0, 0, 0)
			return
		}
		ws := fsnotify.SimWatchers()
		if len(ws) != 1 {
			simrt.Violate("!", "infra", "%d watchers", len(ws))
			return
		}
		fw := ws[0]

		// every configuration that becomes current, in order (scheduler context)
		var corePtr atomic.Pointer[Core]
		chain := []*conf.Conf{p.conf.Load()}
		corePtr.Store(p)
		simrt.OnStep(func() {
			c := corePtr.Load().conf.Load()
			if len(chain) == 0 || chain[len(chain)-1] != c {
				chain = append(chain, c)
			}
		})

		var past []w6Past // real components seen in a slot earlier
		remember := func(sn *w6Snapshot) {
			for _, n := range plan.Names {
				if st := sn.slots[n]; st.addr != 0 && st.info == nil {
					past = append(past, w6Past{st.addr, "stale:" + n})
				}
			}
		}
		coreExited := func() bool {
			select {
			case <-p.done:
				return true
			default:
				return false
			}
		}

		prev := w6Snap(p, plan, past)
		chainMark := 0
		check := func(where string) bool {
			checkpoints++
			cur := w6Snap(p, plan, past)
			fresh, err := w6Fresh(p, plan, cur.conf, &universe)
			if err != nil {
				simrt.Violate("!", "infra", "fresh start on the current configuration failed: %v", err)
				return false
			}
			// (A) new values: every slot is what a fresh start on this configuration creates
			for _, n := range plan.Names {
				c, f := cur.slots[n], fresh.slots[n]
				if (c.addr != 0) != (f.addr != 0) {
					simrt.Violate("C13", "component-presence", "%s: after the configuration change %s the component is %s, a fresh start on the same configuration has it %s",
						where, n, w6Presence(c.addr != 0), w6Presence(f.addr != 0))
					return false
				}
				keys := make([]string, 0, len(f.args))
				for k := range f.args {
					keys = append(keys, k)
				}
				for k := range c.args {
					if _, ok2 := f.args[k]; !ok2 {
						keys = append(keys, k)
					}
				}
				sort.Strings(keys)
				for _, k := range keys {
					if c.args[k] != f.args[k] {
						clause := "stale-parameter"
						if strings.Contains(c.args[k], "@stale:") || k == "~told-about" || strings.Contains(f.args[k], "@") {
							clause = "stale-reference"
						}
						da, db := w6Diff(c.args[k], f.args[k])
						simrt.Violate("C13", clause, "%s: %s.%s is %s, a fresh start on the same configuration gives %s",
							where, n, k, da, db)
						return false
					}
				}
			}
			// (A, behaviour) the authentication manager takes new users in place: its answers
			// must be those of a manager created from nothing on the same configuration
			cur.authAnswers = w6AuthProbe(p)
			if cur.authAnswers != fresh.authAnswers {
				simrt.Violate("C13", "stale-behaviour", "%s: the running authentication manager answers %q to the probe requests (7 credentials x publish p1, read p1, read p2, api), a manager started on the same configuration answers %q",
					where, cur.authAnswers, fresh.authAnswers)
				return false
			}
			// (A, paths) the path manager applies path parameters in place: every path a fresh start
			// creates is live, and every live path runs with the entry that resolves its name now
			if c, f := cur.slots["pathManager"], fresh.slots["pathManager"]; c != nil && f != nil && c.addr != 0 {
				for _, pn := range f.pathNames {
					if _, ok2 := c.pathConfs[pn]; !ok2 {
						simrt.Violate("C13", "stale-parameter", "%s: a fresh start on the same configuration has a path %q, the running path manager has none", where, pn)
						return false
					}
				}
				for _, pn := range c.pathNames {
					want, _, err2 := conf.FindPathConf(cur.conf.Paths, pn)
					if err2 != nil {
						simrt.Violate("C13", "stale-parameter", "%s: live path %q has no entry in the configuration in force (%v)", where, pn, err2)
						return false
					}
					if w := comprec.Render(reflect.ValueOf(want), nil); w != c.pathConfs[pn] {
						da, db := w6Diff(c.pathConfs[pn], w)
						simrt.Violate("C13", "stale-parameter", "%s: live path %q runs with %s, the entry of the configuration in force for it is %s", where, pn, da, db)
						return false
					}
				}
			}
			// (C) keep running: a component none of whose parameters changed is the same instance
			for _, n := range plan.Names {
				pr, c := prev.slots[n], cur.slots[n]
				if pr.addr == 0 || c.addr == 0 {
					continue
				}
				rel := plan.relevant(n)
				changed := ""
				for i := chainMark; i+1 < len(chain) && changed == ""; i++ {
					a, bb := reflect.ValueOf(chain[i]).Elem(), reflect.ValueOf(chain[i+1]).Elem()
					for _, f := range rel {
						if !reflect.DeepEqual(a.FieldByName(f).Interface(), bb.FieldByName(f).Interface()) {
							changed = f
							break
						}
					}
				}
				if changed != "" {
					if pr.addr != c.addr {
						recreated++
					}
					continue
				}
				kept++
				if pr.addr != c.addr || (c.info != nil && c.info.Closes > 0) {
					simrt.Violate("C13", "restarted-needlessly", "%s: %s was closed and created again although none of the %d configuration parameters it is built from (its own, those of the components it references, the logger's) changed in the %d configuration(s) applied since the last check",
						where, n, len(rel), len(chain)-1-chainMark)
					return false
				}
			}
			// (D) life cycle of the stand-ins
			inSlot := map[*comprec.Info]string{}
			for _, n := range plan.Names {
				if st := cur.slots[n]; st.info != nil {
					inSlot[st.info] = n
				}
			}
			for _, i := range comprec.All() {
				if uni[i] != 1 {
					continue
				}
				if i.Inits != 1 || i.Closes > 1 {
					simrt.Violate("C13", "lifecycle", "%s: %s #%d was started %d times and closed %d times", where, i.Kind, i.Seq, i.Inits, i.Closes)
					return false
				}
				if _, held := inSlot[i]; i.Live() != held {
					simrt.Violate("C13", "lifecycle", "%s: %s #%d is running=%v but held by the server=%v", where, i.Kind, i.Seq, i.Live(), held)
					return false
				}
			}
			remember(cur)
			prev = cur
			chainMark = len(chain) - 1
			return true
		}
		if b.Startup != nil {
			// the file changed while the server was starting, and has not changed since:
			// the configuration in force must become the file's
			<-startupWritten
			time.Sleep(5 * time.Second)
			if coreExited() {
				return
			}
			want, _, err := conf.Load(confPath, nil, p)
			if err == nil {
				if comprec.Render(reflect.ValueOf(want), nil) != comprec.Render(reflect.ValueOf(p.conf.Load()), nil) {
					simrt.Violate("C38", "final-content-not-loaded", "the configuration file was rewritten while the server was starting; 5 s later the server still runs with the content it read first, and nothing will make it read the file again")
					p.Close()
					return
				}
			}
			prev = w6Snap(p, plan, past)
			chainMark = len(chain) - 1
		}
		if !check("at start") {
			p.Close()
			return
		}

		for bi := range b.Bursts {
			bu := &b.Bursts[bi]
			failKind = bu.Fail
			var wg sync.WaitGroup
			onlyFile := true
			lastFile := ""
			// a burst made of one accepted API patch of global parameters is judged for exactness (C12)
			var soleGlobal *w6Step
			soleOK := false
			live := 0
			for si := range bu.Steps {
				if bu.Steps[si].Kind != "nop" {
					live++
				}
			}
			confBefore := p.conf.Load()
			for si := range bu.Steps {
				st := &bu.Steps[si]
				if st.Kind == "nop" {
					continue
				}
				if st.Kind != "file" {
					onlyFile = false
				} else {
					lastFile = w6Render(st.Globals, st.Paths)
				}
				wg.Add(1)
				go func() {
					defer wg.Done()
					if st.GapMs > 0 {
						time.Sleep(time.Duration(st.GapMs) * time.Millisecond)
					}
					simrt.Rec("op.call", st.Kind, st.Name, int64(bi), int64(si), 0)
					var err error
					switch st.Kind {
					case "file":
						// the file always has complete content when a notification can be seen
						emit := func(name string, op fsnotify.Op) {
							select {
							case fw.Events <- fsnotify.Event{Name: name, Op: op}:
							case <-p.done:
							}
						}
						content := []byte(w6Render(st.Globals, st.Paths))
						switch st.Mode {
						case "rename":
							// editor style: temporary file, then renamed over the configuration
							tmp := confPath + ".tmp"
							os.WriteFile(tmp, content, 0o644)
							emit(tmp, fsnotify.Create)
							emit(tmp, fsnotify.Write)
							os.Rename(tmp, confPath)
							emit(tmp, fsnotify.Rename)
							emit(confPath, fsnotify.Create)
						case "other":
							// an unrelated file of the same directory changes just before
							o := filepath.Join(dir, "other.txt")
							os.WriteFile(o, []byte("x"), 0o644)
							emit(o, fsnotify.Create)
							emit(o, fsnotify.Write)
							os.WriteFile(confPath, content, 0o644)
							emit(confPath, fsnotify.Write)
						default:
							os.WriteFile(confPath, content, 0o644)
							emit(confPath, fsnotify.Write)
						}
					case "global":
						var v conf.OptionalGlobal
						if err = jsonwrapper.Decode(bytes.NewReader([]byte(w6Payload(st.Set))), &v); err == nil {
							err = w6API(p, func() error { return p.APIConfigGlobalPatch(v) })
						}
					case "defaults":
						var v conf.OptionalPath
						if err = jsonwrapper.Decode(bytes.NewReader([]byte(w6Payload(st.Set))), &v); err == nil {
							err = w6API(p, func() error { return p.APIConfigPathDefaultsPatch(v) })
						}
					case "padd", "ppatch", "preplace":
						var v conf.OptionalPath
						if err = jsonwrapper.Decode(bytes.NewReader([]byte(w6Payload(st.Set))), &v); err == nil {
							switch st.Kind {
							case "padd":
								err = w6API(p, func() error { return p.APIConfigPathsAdd(st.Name, v) })
							case "ppatch":
								err = w6API(p, func() error { return p.APIConfigPathsPatch(st.Name, v) })
							default:
								err = w6API(p, func() error { return p.APIConfigPathsReplace(st.Name, v) })
							}
						}
					case "pdelete":
						err = w6API(p, func() error { return p.APIConfigPathsDelete(st.Name) })
					}
					okN := int64(0)
					if err == nil {
						okN = 1
						if st.Kind != "file" {
							accepted++
						}
						if st.Kind == "global" && live == 1 {
							soleGlobal, soleOK = st, true
						}
					}
					simrt.Rec("op.ret", st.Kind, st.Name, int64(bi), int64(si), okN)
				}()
			}
			burstDone := make(chan struct{})
			go func() {
				wg.Wait()
				close(burstDone)
			}()
			select {
			case <-burstDone:
			case <-time.After(60 * time.Second):
				// a request was never answered: the server's routine and the handler of an API
				// request wait for each other (the routine closes the API server, which waits for
				// its handlers; the handler waits for the routine to take its request)
				pending := "no edit is pending"
				if p.nextConf.Load() != nil {
					pending = "an edit that was acknowledged is still waiting to be applied"
				}
				simrt.Violate("C13", "reload-never-completes", "change %d: a minute after the requests of this burst were issued one of them is still unanswered and the server applies nothing any more (%s)", bi+1, pending)
				return
			}
			// the burst is over: leave ample time for the watcher's delay and the reload
			time.Sleep(5 * time.Second)
			failKind = ""
			if coreExited() {
				exited = true
				break
			}
			reloads += len(chain) - 1 - chainMark
			if !check(fmt.Sprintf("after change %d", bi+1)) {
				break
			}
			if soleOK && soleGlobal != nil {
				// C12, over every global parameter: an accepted patch changes exactly the fields it
				// carries, to the value the same text gives when it is read from a configuration file
				exactChecks++
				if msg := w6Exact(dir, confBefore, p.conf.Load(), soleGlobal.Set, p); msg != "" {
					clause := "patch-not-exact"
					if confBefore.ReadBufferCount != nil && strings.HasPrefix(msg, "field writeQueueSize is ") {
						// the configuration in force carries the parameter under its old name
						// (readBufferCount): every later edit converts it again, over the new value
						clause = "old-name-reapplied"
					}
					simrt.Violate("C12", clause, "API patch %s: %s", w6Payload(soleGlobal.Set), msg)
					break
				}
			}
			if onlyFile && lastFile != "" {
				// the watcher inside the server: the configuration in force is the file's
				fileLoads++
				want, _, err := conf.Load(confPath, nil, p)
				if err == nil {
					a := comprec.Render(reflect.ValueOf(want), nil)
					g := comprec.Render(reflect.ValueOf(p.conf.Load()), nil)
					if a != g {
						simrt.Violate("C38", "final-content-not-loaded", "5 s after the last write of the configuration file the server runs with a configuration that differs from the file's")
						break
					}
				}
			}
		}
		if !coreExited() {
			p.Close()
		} else {
			<-p.done
		}
		if simrt.Aborted() {
			return
		}
		// after the end nothing keeps running
		for _, i := range comprec.All() {
			if uni[i] == 1 && (i.Inits != 1 || i.Closes != 1) {
				simrt.Violate("C13", "lifecycle", "after the server has shut down %s #%d was started %d times and closed %d times", i.Kind, i.Seq, i.Inits, i.Closes)
				break
			}
		}
	})
	out := simrt.Outcome{Res: res}
	out.Violations = append(out.Violations, res.Violations...)
	out.Nontrivial = reloads > 0
	out.Abstract = []string{fmt.Sprintf("b%d r%d rc%d k%d x%v", len(b.Bursts), reloads, recreated, kept, exited), res.Hash}
	out.Extra = map[string]any{"checkpoints": checkpoints, "configurations_applied": reloads, "components_recreated": recreated,
		"components_kept": kept, "accepted_api_edits": accepted, "server_exited": w6B(exited), "start_failures_injected": failFired, "file_loads_compared": fileLoads, "api_patches_checked_for_exactness": exactChecks}
	return out
}

// w6Exact compares the configuration after an accepted patch of global parameters with the one
// before: fields outside the patch are unchanged, fields in the patch hold what a configuration
// file with the same text yields ("" = exact).
func w6Exact(dir string, before, after *conf.Conf, set map[string]string, lg logger.Writer) string {
	toMap := func(c *conf.Conf) (map[string]json.RawMessage, error) {
		raw, err := json.Marshal(c)
		if err != nil {
			return nil, err
		}
		m := map[string]json.RawMessage{}
		err = json.Unmarshal(raw, &m)
		return m, err
	}
	mb, err1 := toMap(before)
	ma, err2 := toMap(after)
	if err1 != nil || err2 != nil {
		return ""
	}
	// the reference for the patched fields: the same text, through the file loader
	fp := filepath.Join(dir, "exact.yml")
	var sb strings.Builder
	keys := make([]string, 0, len(set))
	for k := range set {
		keys = append(keys, k)
	}
	sort.Strings(keys)
	for _, k := range keys {
		fmt.Fprintf(&sb, "%s: %s\n", k, set[k])
	}
	os.WriteFile(fp, []byte(sb.String()), 0o644)
	ref, _, err := conf.Load(fp, nil, lg)
	if err != nil {
		return "" // the file loader refuses this combination on its own: nothing to compare with
	}
	mr, err := toMap(ref)
	if err != nil {
		return ""
	}
	inSet := map[string]bool{}
	for _, k := range keys {
		inSet[k] = true
		if string(ma[k]) != string(mr[k]) {
			return fmt.Sprintf("field %s is %s afterwards, a configuration file with the same text gives %s", k, w6Short(string(ma[k])), w6Short(string(mr[k])))
		}
	}
	all := make([]string, 0, len(mb))
	for k := range mb {
		all = append(all, k)
	}
	for k := range ma {
		if _, ok := mb[k]; !ok {
			all = append(all, k)
		}
	}
	sort.Strings(all)
	// a parameter given under its old name also sets the parameter that replaced it: what the
	// same text yields through the file loader, where that differs from an empty file
	var md map[string]json.RawMessage
	fp0 := filepath.Join(dir, "exact0.yml")
	os.WriteFile(fp0, []byte("{}\n"), 0o644)
	if def, _, err := conf.Load(fp0, nil, lg); err == nil {
		md, _ = toMap(def)
	}
	for _, k := range all {
		if inSet[k] {
			continue
		}
		if md != nil && string(ma[k]) == string(mr[k]) && string(mr[k]) != string(md[k]) {
			continue
		}
		if string(ma[k]) != string(mb[k]) {
			return fmt.Sprintf("field %s, which the patch does not carry, changed from %s to %s", k, w6Short(string(mb[k])), w6Short(string(ma[k])))
		}
	}
	return ""
}

func w6B(b bool) int {
	if b {
		return 1
	}
	return 0
}

func w6Presence(b bool) string {
	if b {
		return "running"
	}
	return "absent"
}

// w6API issues an API call; when the server has exited (a component failed to start) the
// call would never be answered, so the client gives up then.
func w6API(p *Core, call func() error) error {
	// when the server runs its API component the request goes through it: the stand-in
	// tracks it like the real handler chain does, and its Close waits for it
	if a := p.api; a != nil {
		leave, ok := a.ZZEnter()
		if !ok {
			return fmt.Errorf("connection refused")
		}
		defer leave()
	}
	// the API methods of Core give up by themselves when the server terminates
	return call()
}
