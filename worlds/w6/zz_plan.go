package core

// Static reading of Core.createResources (source text of the working tree, handed in as the
// constant zzCoreSrc by goinst): for every component slot of Core, which configuration fields
// its creation block reads, which other slots it references and which arguments its literal
// sets. The C13 oracle uses this to know (a) what "the constructor arguments of a component"
// are without a hand-written table and (b) which configuration parameters belong to a
// component, so that "none of its parameters changed" is decided from the code's own
// constructor and not from the close* predicates under check.

import (
	"fmt"
	"go/ast"
	"go/parser"
	"go/token"
	"sort"
)

type w6Slot struct {
	Name   string
	Fields map[string]bool // configuration fields read in the creation block (condition included)
	Refs   map[string]bool // other slots referenced in the block
	Keys   []string        // keys of the component literal
	Order  int
}

type w6Plan struct {
	Slots map[string]*w6Slot
	Names []string // creation order
}

func w6Analyze(src string) (*w6Plan, error) {
	fset := token.NewFileSet()
	f, err := parser.ParseFile(fset, "core.go", src, 0)
	if err != nil {
		return nil, err
	}
	coreFields := map[string]bool{}
	var create *ast.FuncDecl
	for _, d := range f.Decls {
		switch x := d.(type) {
		case *ast.GenDecl:
			for _, sp := range x.Specs {
				ts, ok := sp.(*ast.TypeSpec)
				if !ok || ts.Name.Name != "Core" {
					continue
				}
				if st, ok2 := ts.Type.(*ast.StructType); ok2 {
					for _, fl := range st.Fields.List {
						if _, isPtr := fl.Type.(*ast.StarExpr); !isPtr {
							continue
						}
						for _, n := range fl.Names {
							coreFields[n.Name] = true
						}
					}
				}
			}
		case *ast.FuncDecl:
			if x.Name.Name == "createResources" && x.Recv != nil {
				create = x
			}
		}
	}
	if create == nil || len(coreFields) == 0 {
		return nil, fmt.Errorf("createResources or Core not found")
	}
	recv := "p"
	if len(create.Recv.List) == 1 && len(create.Recv.List[0].Names) == 1 {
		recv = create.Recv.List[0].Names[0].Name
	}
	// the local that holds the configuration: x := p.conf.Load()
	confVar := ""
	for _, st := range create.Body.List {
		as, ok := st.(*ast.AssignStmt)
		if !ok || len(as.Lhs) != 1 || len(as.Rhs) != 1 {
			continue
		}
		call, ok := as.Rhs[0].(*ast.CallExpr)
		if !ok {
			continue
		}
		if se, ok2 := call.Fun.(*ast.SelectorExpr); ok2 && se.Sel.Name == "Load" {
			if inner, ok3 := se.X.(*ast.SelectorExpr); ok3 && inner.Sel.Name == "conf" {
				if id, ok4 := as.Lhs[0].(*ast.Ident); ok4 {
					confVar = id.Name
				}
			}
		}
	}
	if confVar == "" {
		return nil, fmt.Errorf("configuration variable of createResources not found")
	}
	isSel := func(e ast.Expr, x string) (string, bool) {
		se, ok := e.(*ast.SelectorExpr)
		if !ok {
			return "", false
		}
		id, ok := se.X.(*ast.Ident)
		if !ok || id.Name != x {
			return "", false
		}
		return se.Sel.Name, true
	}
	plan := &w6Plan{Slots: map[string]*w6Slot{}}
	for _, st := range create.Body.List {
		ifs, ok := st.(*ast.IfStmt)
		if !ok {
			continue
		}
		initialOnly := false
		ast.Inspect(ifs.Cond, func(n ast.Node) bool {
			if id, ok2 := n.(*ast.Ident); ok2 && id.Name == "initial" {
				initialOnly = true
			}
			return true
		})
		if initialOnly {
			continue
		}
		assigned := map[string]bool{}
		ast.Inspect(ifs.Body, func(n ast.Node) bool {
			if as, ok2 := n.(*ast.AssignStmt); ok2 {
				for _, l := range as.Lhs {
					if name, ok3 := isSel(l, recv); ok3 && coreFields[name] {
						assigned[name] = true
					}
				}
			}
			return true
		})
		if len(assigned) != 1 {
			if len(assigned) > 1 {
				return nil, fmt.Errorf("a block of createResources assigns %d slots", len(assigned))
			}
			continue
		}
		var slotName string
		for n := range assigned {
			slotName = n
		}
		if plan.Slots[slotName] != nil {
			return nil, fmt.Errorf("slot %s is created by two blocks", slotName)
		}
		sl := &w6Slot{Name: slotName, Fields: map[string]bool{}, Refs: map[string]bool{}, Order: len(plan.Names)}
		ast.Inspect(ifs, func(n ast.Node) bool {
			if e, ok2 := n.(ast.Expr); ok2 {
				if name, ok3 := isSel(e, confVar); ok3 {
					sl.Fields[name] = true
				}
				if name, ok3 := isSel(e, recv); ok3 && coreFields[name] && name != slotName {
					sl.Refs[name] = true
				}
			}
			return true
		})
		// the component literal: the composite literal with the most keys in the block
		var best *ast.CompositeLit
		ast.Inspect(ifs.Body, func(n ast.Node) bool {
			if cl, ok2 := n.(*ast.CompositeLit); ok2 {
				nk := 0
				for _, el := range cl.Elts {
					if _, ok3 := el.(*ast.KeyValueExpr); ok3 {
						nk++
					}
				}
				if nk > 0 && (best == nil || nk > len(best.Elts)) {
					best = cl
				}
			}
			return true
		})
		if best == nil {
			return nil, fmt.Errorf("slot %s: component literal not found", slotName)
		}
		for _, el := range best.Elts {
			if kv, ok2 := el.(*ast.KeyValueExpr); ok2 {
				if id, ok3 := kv.Key.(*ast.Ident); ok3 {
					sl.Keys = append(sl.Keys, id.Name)
				}
			}
		}
		plan.Slots[slotName] = sl
		plan.Names = append(plan.Names, slotName)
	}
	if len(plan.Names) < 5 {
		return nil, fmt.Errorf("only %d component blocks recognised in createResources", len(plan.Names))
	}
	return plan, nil
}

// relevant returns the configuration fields that belong to a slot: those its own block reads,
// those of every slot it references (transitively), and those of the logger, through which
// every component writes.
func (pl *w6Plan) relevant(slot string) []string {
	seen := map[string]bool{}
	out := map[string]bool{}
	var walk func(s string)
	walk = func(s string) {
		if seen[s] {
			return
		}
		seen[s] = true
		sl := pl.Slots[s]
		if sl == nil {
			return
		}
		for f := range sl.Fields {
			out[f] = true
		}
		for r := range sl.Refs {
			walk(r)
		}
	}
	walk(slot)
	walk("logger")
	var fs []string
	for f := range out {
		fs = append(fs, f)
	}
	sort.Strings(fs)
	return fs
}
