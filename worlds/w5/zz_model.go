package core

// W5 "hlsworld", uninstrumented part: scenario types, generator, the
// reference for who may read what, playlist parsing.

import (
	"math/rand"
	"net"
	"runtime/debug"
	"strings"

	"github.com/gin-gonic/gin"

	"github.com/bluenviron/mediamtx/internal/zzsim/simrt"
)

func init() { gin.SetMode(gin.ReleaseMode) }

type w5Op struct {
	Op   string `json:"op"` // publisher: session(ms), sleep(ms); viewer: play(n polls, ms apart), sleep; attacker: probe(n, ms)
	N    int64  `json:"n,omitempty"`
	Ms   int64  `json:"ms,omitempty"`
	From int    `json:"from,omitempty"` // attacker: index of the viewer whose secret is tried
	How  string `json:"how,omitempty"`  // attacker: otherip, otherpath, xff, none, garbage, random, wrongcdn, cdn, cookieonly
	// publisher session: at this instant of the session (0 = never) one frame larger than the
	// configured maximum segment size is written, which makes the muxer instance fail
	BigAtMs int64 `json:"big_at_ms,omitempty"`
}

type w5Actor struct {
	Kind    string `json:"kind"` // pub viewer attacker nop
	Path    string `json:"path,omitempty"`
	User    string `json:"user,omitempty"`
	Pass    string `json:"pass,omitempty"`
	IP      string `json:"ip,omitempty"`
	Cookies bool   `json:"cookies,omitempty"` // the viewer keeps cookies (else the secret travels in the query)
	Bearer  bool   `json:"bearer,omitempty"`  // credentials in "Authorization: Bearer user:pass" instead of Basic
	XFF     string `json:"xff,omitempty"`     // viewer: every request carries this forged X-Forwarded-For (no proxy is trusted)
	StartMs int64  `json:"start_ms,omitempty"`
	// viewer: starts when the publisher of cam1 is about to reconnect for the k-th time (0 = by the clock)
	AtReconn int   `json:"at_reconn,omitempty"`
	Ops     []w5Op `json:"ops"`
}

type w5Body struct {
	Variant     string    `json:"variant"` // mpegts fmp4
	CDNSecret   string    `json:"cdn_secret,omitempty"`
	AlwaysRemux bool      `json:"always_remux,omitempty"`
	SegmentMs   int64     `json:"segment_ms"`
	// hlsSegmentMaxSize in KiB (0 = the default of 50 MiB)
	SegmentMaxKB int64 `json:"segment_max_kb,omitempty"`
	Actors      []w5Actor `json:"actors"`
	TailMs      int64     `json:"tail_ms"`
	Hooks       bool      `json:"hooks,omitempty"`
}

// the users of every W5 run (rendered into the configuration by the harness)
type w5User struct {
	user, pass string
	ipNet      string // "" = any
	readPaths  []string // nil = every path
	publish    bool
}

var w5Users = []w5User{
	{user: "pub", pass: "pubpw", publish: true},
	{user: "viewer1", pass: "pw1", readPaths: []string{"cam1"}},
	{user: "viewer2", pass: "pw2"},
	{user: "lan", pass: "lanpw", ipNet: "10.0.0.0/8"},
}

// w5MayRead is the reference decision: may these credentials read path from ip?
func w5MayRead(user, pass, ip, path string) bool {
	for _, u := range w5Users {
		if u.user != user || u.pass != pass || u.publish {
			continue
		}
		if u.ipNet != "" {
			_, n, _ := net.ParseCIDR(u.ipNet)
			if !n.Contains(net.ParseIP(ip)) {
				continue
			}
		}
		if u.readPaths == nil {
			return true
		}
		for _, p := range u.readPaths {
			if p == path {
				return true
			}
		}
	}
	return false
}

func w5Gen(rng *rand.Rand, tier string) (*w5Body, simrt.Sched) {
	pick := func(l ...string) string { return l[rng.Intn(len(l))] }
	b := &w5Body{Variant: pick("mpegts", "fmp4"), SegmentMs: 1000, TailMs: 3000}
	if rng.Intn(2) == 0 {
		b.CDNSecret = "Cdn-Secret-1x"
	}
	b.AlwaysRemux = rng.Intn(4) == 0
	// one run in five: a small segment size limit and a publisher that exceeds it once
	crashy := rng.Intn(5) == 0
	if crashy {
		b.SegmentMaxKB = 64
		b.AlwaysRemux = rng.Intn(2) == 0
	}
	// publishers: cam1 always, cam2 mostly; they may leave and come back
	for i, path := range []string{"cam1", "cam2"} {
		if i == 1 && rng.Intn(4) == 0 {
			continue
		}
		a := w5Actor{Kind: "pub", Path: path, User: "pub", Pass: "pubpw", IP: "127.0.0.1", StartMs: int64(rng.Intn(3)) * 100}
		a.Ops = append(a.Ops, w5Op{Op: "session", Ms: int64(6000 + rng.Intn(6000))})
		if crashy && rng.Intn(2) == 0 {
			a.Ops[0].BigAtMs = int64(2000 + rng.Intn(6000))
			a.Ops[0].Ms += 12000 // the instance is created again 10 s after it failed
		}
		if rng.Intn(3) == 0 {
			a.Ops = append(a.Ops, w5Op{Op: "sleep", Ms: int64(500 + rng.Intn(3000))}, w5Op{Op: "session", Ms: int64(3000 + rng.Intn(4000))})
		}
		b.Actors = append(b.Actors, a)
	}
	creds := [][2]string{{"viewer1", "pw1"}, {"viewer2", "pw2"}, {"viewer2", "pw2"}, {"lan", "lanpw"}, {"viewer1", "wrong"}, {"", ""}, {"pub", "pubpw"}}
	// (the last one is an IPv6 link-local address: it carries a zone, as the peer address of such a connection does)
	ips := []string{"10.0.0.5", "10.0.0.6", "192.168.7.7", "2001:db8::7", "fe80::a%eth0"}
	nv := 1 + rng.Intn(3)
	var viewers []int
	for i := 0; i < nv; i++ {
		c := creds[rng.Intn(len(creds))]
		a := w5Actor{Kind: "viewer", Path: pick("cam1", "cam1", "cam2"), User: c[0], Pass: c[1], IP: ips[rng.Intn(len(ips))],
			Cookies: rng.Intn(2) == 0, Bearer: rng.Intn(4) == 0, StartMs: int64(1000 + rng.Intn(4000))}
		a.Ops = append(a.Ops, w5Op{Op: "play", N: int64(2 + rng.Intn(6)), Ms: []int64{200, 500, 1000, 2500}[rng.Intn(4)]})
		if rng.Intn(6) == 0 {
			// the address-restricted user from an address that is not allowed, claiming an allowed one
			a.User, a.Pass, a.IP, a.XFF = "lan", "lanpw", pick("192.168.7.7", "2001:db8::7"), "10.0.0.5"
		}
		if crashy && rng.Intn(2) == 0 {
			// keeps polling across the failure of the muxer instance and its re-creation
			a.Ops[0].N, a.Ops[0].Ms = int64(6+rng.Intn(8)), 2500
		}
		if rng.Intn(3) == 0 {
			// a pause longer than the session inactivity limit, then again
			a.Ops = append(a.Ops, w5Op{Op: "sleep", Ms: []int64{5000, 29000, 31000, 45000}[rng.Intn(4)]}, w5Op{Op: "play", N: 2, Ms: 500})
		}
		viewers = append(viewers, len(b.Actors))
		b.Actors = append(b.Actors, a)
	}
	na := 1 + rng.Intn(3)
	hows := []string{"otherip", "otherip", "otherpath", "xff", "none", "garbage", "random", "wrongcdn", "cookieonly"}
	if b.CDNSecret != "" {
		hows = append(hows, "cdn", "cdn")
	}
	for i := 0; i < na; i++ {
		a := w5Actor{Kind: "attacker", IP: pick("203.0.113.9", "10.0.0.99", "192.168.7.8", "2001:db8::99", "2001:db9::1", "fe80::b%eth1"), StartMs: int64(2000 + rng.Intn(5000)),
			Path: pick("cam1", "cam2")}
		for k, n := 0, 1+rng.Intn(3); k < n; k++ {
			a.Ops = append(a.Ops, w5Op{Op: "probe", N: int64(1 + rng.Intn(3)), Ms: []int64{100, 700, 2000}[rng.Intn(3)],
				From: viewers[rng.Intn(len(viewers))], How: hows[rng.Intn(len(hows))]})
		}
		b.Actors = append(b.Actors, a)
	}
	sched := simrt.DefaultSched(rng)
	sched.MaxSteps = 400000
	sched.Focus = []string{"servers/hls/"}
	return b, sched
}

// w5URIs returns the URIs (non-comment lines and URI="..." attributes) of a playlist.
func w5URIs(body string) []string {
	var out []string
	for _, line := range strings.Split(body, "\n") {
		line = strings.TrimSpace(line)
		if line == "" {
			continue
		}
		if strings.HasPrefix(line, "#") {
			rest := line
			for {
				i := strings.Index(rest, `URI="`)
				if i < 0 {
					break
				}
				rest = rest[i+5:]
				j := strings.Index(rest, `"`)
				if j < 0 {
					break
				}
				out = append(out, rest[:j])
				rest = rest[j+1:]
			}
			continue
		}
		out = append(out, line)
	}
	return out
}

// w5Stack returns the frames of the panicking call inside mediamtx (function and file:line).
func w5Stack() string {
	var out []string
	lines := strings.Split(string(debug.Stack()), "\n")
	for i := 0; i+1 < len(lines); i += 1 {
		if strings.Contains(lines[i], "mediamtx/internal/") && !strings.HasPrefix(lines[i], "\t") && !strings.Contains(lines[i], "zzsim") && !strings.Contains(lines[i], "w5Stack") {
			loc := strings.TrimSpace(lines[i+1])
			if j := strings.Index(loc, " +0x"); j > 0 {
				loc = loc[:j]
			}
			if j := strings.Index(loc, "/internal/"); j > 0 {
				loc = loc[j+10:]
			}
			out = append(out, loc)
		}
		if len(out) >= 8 {
			break
		}
	}
	return "  at " + strings.Join(out, " < ")
}

// w5QuerySecret extracts session=<secret> from a URI.
func w5QuerySecret(uri string) string {
	i := strings.Index(uri, "?")
	if i < 0 {
		return ""
	}
	for _, kv := range strings.Split(uri[i+1:], "&") {
		if strings.HasPrefix(kv, "session=") {
			return kv[len("session="):]
		}
	}
	return ""
}
