package core

// W5 "hlsworld": the real HLS server (http request handling, sessions, muxers,
// gohlslib) on top of the real path manager, paths, streams and internal
// authentication. The listener is replaced by a stub that hands requests to
// the server's handler chain; publishers, viewers and attackers are actors.

import (
	"encoding/json"
	"fmt"
	"math/rand"
	"net"
	"net/http"
	"net/http/httptest"
	"net/url"
	"os"
	"path/filepath"
	"sort"
	"strings"
	"sync"
	"testing"
	"time"

	"github.com/bluenviron/gohlslib/v2"
	"github.com/bluenviron/gortsplib/v5/pkg/description"
	"github.com/bluenviron/gortsplib/v5/pkg/format"
	"github.com/google/uuid"

	"github.com/bluenviron/mediamtx/internal/auth"
	"github.com/bluenviron/mediamtx/internal/conf"
	"github.com/bluenviron/mediamtx/internal/defs"
	"github.com/bluenviron/mediamtx/internal/externalcmd"
	"github.com/bluenviron/mediamtx/internal/logger"
	"github.com/bluenviron/mediamtx/internal/protocols/httpp"
	"github.com/bluenviron/mediamtx/internal/servers/hls"
	"github.com/bluenviron/mediamtx/internal/unit"
	"github.com/bluenviron/mediamtx/internal/zzsim/simrt"
)

func simWorldMain(t *testing.T) { simrt.WorkerMain(t, &w5World{}) }

type w5World struct{}

func (w *w5World) Gen(rng *rand.Rand, property, tier string) (any, simrt.Sched) {
	b, sched := w5Gen(rng, tier)
	// C20 runs: runOnRead / runOnUnread configured on the paths (their pairing per HLS session is judged)
	b.Hooks = property == "C20"
	if property == "C40" {
		// a path of the regular-expression entry; its publisher leaves (and comes back) while an
		// API client kicks the HLS sessions that read it
		b.SegmentMaxKB = 0
		pub := w5Actor{Kind: "pub", Path: "dyn1", User: "pub", Pass: "pubpw", IP: "127.0.0.1"}
		for k, n := 0, 2+rng.Intn(3); k < n; k++ {
			pub.Ops = append(pub.Ops, w5Op{Op: "session", Ms: int64(2000 + 1000*rng.Intn(3))}, w5Op{Op: "sleep", Ms: []int64{0, 300, 1500}[rng.Intn(3)]})
		}
		placed := false
		for i := range b.Actors {
			a := &b.Actors[i]
			if a.Kind == "pub" && a.Path == "cam2" {
				*a, placed = pub, true // (in place: attackers refer to viewers by their index)
			}
			if a.Kind == "viewer" {
				a.Path, a.User, a.Pass, a.IP, a.XFF = "dyn1", "viewer2", "pw2", "10.0.0.5", ""
				a.StartMs = int64(300 + rng.Intn(1500))
				a.Ops = []w5Op{{Op: "play", N: int64(4 + rng.Intn(6)), Ms: 500}}
			}
		}
		if !placed {
			b.Actors = append(b.Actors, pub)
		}
		b.Actors = append(b.Actors, w5Actor{Kind: "kick", StartMs: 500, Ops: []w5Op{{Op: "kick", N: int64(3 + rng.Intn(4)), Ms: 4000}}})
	}
	if property == "C18" {
		// the publisher of cam1 reconnects (leaves and is back at once) while viewers open sessions:
		// a session that is being set up at that instant is attached to a stream that goes away
		b.SegmentMaxKB = 0
		// (mostly without a muxer that exists beforehand: the session then creates one, which is
		// admitted by the path some steps after the session itself)
		b.AlwaysRemux = rng.Intn(4) == 0
		var at []int64
		for i := range b.Actors {
			a := &b.Actors[i]
			if a.Kind == "pub" && a.Path == "cam1" {
				a.StartMs = 0
				a.Ops = nil
				t := int64(0)
				for k, n := 0, 2+rng.Intn(3); k < n; k++ {
					d := int64(2000 + 1000*rng.Intn(3))
					a.Ops = append(a.Ops, w5Op{Op: "session", Ms: d}, w5Op{Op: "sleep", Ms: 0})
					t += d
					at = append(at, t)
				}
				a.Ops = append(a.Ops, w5Op{Op: "session", Ms: 8000})
			}
		}
		for i := range b.Actors {
			a := &b.Actors[i]
			if a.Kind == "viewer" && len(at) > 0 {
				a.Path, a.User, a.Pass, a.IP, a.XFF = "cam1", "viewer2", "pw2", "10.0.0.5", ""
				// (a session that slips through a reconnection lives until the next one closes its muxer:
				// the last reconnection is the one whose survivors the final check can see)
				a.StartMs = at[len(at)-1] + []int64{0, 0, 0, 0, -1, 1, -100}[rng.Intn(7)]
				if rng.Intn(4) == 0 {
					a.StartMs = at[rng.Intn(len(at))]
				}
				if rng.Intn(3) != 0 {
					// started by the reconnection itself rather than by the clock
					a.AtReconn, a.StartMs = len(at), 0
				}
				a.Ops = []w5Op{{Op: "play", N: int64(3 + rng.Intn(3)), Ms: 1000}}
			}
		}
	}
	return b, sched
}

var w5SPS = []byte{
	0x67, 0x42, 0xc0, 0x28, 0xd9, 0x00, 0x78, 0x02,
	0x27, 0xe5, 0x84, 0x00, 0x00, 0x03, 0x00, 0x04,
	0x00, 0x00, 0x03, 0x00, 0xf0, 0x3c, 0x60, 0xc9, 0x20,
}

var w5PPS = []byte{0x08, 0x06, 0x07, 0x08}

type w5Issued struct {
	path, ip string
}

type w5Learned struct {
	secret   string
	path, ip string
	media    string // name of a media playlist (no query)
	segment  string // name of a segment (no query)
}

type w5AuthRec struct {
	seq                    int64
	user, pass, ip, path   string
	publish, ok            bool
}

type w5Harness struct {
	body *w5Body
	pm   *pathManager
	srv  *hls.Server

	mu      sync.Mutex
	issued  map[string]w5Issued // secrets the server handed out: to which path and address
	learned map[int]*w5Learned  // what each viewer knows (attackers read it)
	auths   []w5AuthRec
	viol    []simrt.Violation
	served  int
	refused int
	created int
	// read hook pairs per HLS session (C20 share)
	hookOpen, hookClosed map[string]int
	// reconn[k] is closed when the publisher of cam1 is about to reconnect for the k-th time
	reconn  []chan struct{}
	nreconn int
	// C40 runs: closed (and replaced) whenever a publisher is about to leave
	leaveCh chan struct{}
}

// runKicker is the API client that lists the HLS sessions and kicks every one of them, each
// time a publisher is about to leave (or after Ms at the latest).
func (h *w5Harness) runKicker(idx int, a *w5Actor) {
	time.Sleep(time.Duration(a.StartMs) * time.Millisecond)
	for _, op := range a.Ops {
		for k := int64(0); k < op.N && !simrt.Aborted(); k++ {
			h.mu.Lock()
			ch := h.leaveCh
			h.mu.Unlock()
			select {
			case <-ch:
			case <-time.After(time.Duration(op.Ms) * time.Millisecond):
			}
			l, err := h.srv.APISessionsList()
			if err != nil {
				continue
			}
			items := append([]defs.APIHLSSession(nil), l.Items...)
			sort.Slice(items, func(i, j int) bool { return items[i].ID.String() < items[j].ID.String() })
			for _, sx := range items {
				simrt.Rec("api.kick.call", sx.Path, sx.ID.String(), 0, 0, 0)
				err = h.srv.APISessionsKick(sx.ID)
				simrt.Rec("api.kick.ret", sx.Path, sx.ID.String(), 0, 0, 0)
				_ = err
			}
		}
	}
}

func (h *w5Harness) Log(level logger.Level, format string, args ...any) {
	msg := fmt.Sprintf(format, args...)
	if strings.Contains(msg, "[session ") && (strings.Contains(msg, "runOnRead command started") || strings.Contains(msg, "runOnUnread command launched")) {
		// the read hook pair of an HLS session (C20): "[session 1a2b3c4d] runOn..."
		kind := "read"
		if strings.Contains(msg, "runOnUnread") {
			kind = "unread"
		}
		id := ""
		if a := strings.Index(msg, "[session "); a >= 0 {
			if b := strings.Index(msg[a:], "]"); b > 0 {
				id = msg[a+9 : a+b]
			}
		}
		h.mu.Lock()
		if h.hookOpen == nil {
			h.hookOpen = map[string]int{}
			h.hookClosed = map[string]int{}
		}
		if kind == "read" {
			h.hookOpen[id]++
			if h.hookOpen[id] > 1 {
				h.mu.Unlock()
				h.violate("C20", "pair-opened-twice", "runOnRead was announced %d times for HLS session %s", h.hookOpen[id], id)
				h.mu.Lock()
			}
		} else {
			h.hookClosed[id]++
			if h.hookClosed[id] > h.hookOpen[id] {
				o, c := h.hookOpen[id], h.hookClosed[id]
				h.mu.Unlock()
				h.violate("C20", "close-without-open", "runOnUnread was announced %d time(s) for HLS session %s after %d announcement(s) of runOnRead", c, id, o)
				h.mu.Lock()
			}
		}
		h.mu.Unlock()
	}
	if strings.Contains(msg, "] [s->c] ") {
		// the response dump of the HTTP logger is written while the request returns from gohlslib,
		// where several requests blocked on one playlist are released at once by a condition
		// variable of the (uninstrumented) library: they run in parallel until each parks at the
		// yield that follows SimServe, so nothing on that stretch may enter the event log
		return
	}
	simrt.Rec("log", msg, "", int64(level), 0, 0)
}

func (h *w5Harness) violate(prop, clause, format string, args ...any) {
	h.mu.Lock()
	defer h.mu.Unlock()
	for _, v := range h.viol {
		if v.Property == prop && v.Clause == clause {
			return
		}
	}
	h.viol = append(h.viol, simrt.Violation{Property: prop, Clause: clause, Detail: fmt.Sprintf(format, args...)})
}

// authentication proxy: records every decision
type w5AuthProxy struct {
	h *w5Harness
	m *auth.Manager
}

func (p *w5AuthProxy) Authenticate(req *auth.Request) (string, *auth.Error) {
	user, err := p.m.Authenticate(req)
	r := w5AuthRec{path: req.Path, ip: req.IP.String(), publish: req.Action == conf.AuthActionPublish, ok: err == nil}
	if req.Credentials != nil {
		r.user, r.pass = req.Credentials.User, req.Credentials.Pass
	}
	okN := int64(0)
	if r.ok {
		okN = 1
	}
	r.seq = simrt.Rec("auth", r.user+"|"+r.pass+"|"+r.ip, req.Path, okN, 0, 0)
	p.h.mu.Lock()
	p.h.auths = append(p.h.auths, r)
	p.h.mu.Unlock()
	return user, err
}

func (h *w5Harness) yaml() string {
	var sb strings.Builder
	sb.WriteString("rtsp: no\nrtmp: no\nhls: no\nwebrtc: no\nsrt: no\nmoq: no\napi: no\nmetrics: no\npprof: no\nplayback: no\nlogLevel: debug\n")
	sb.WriteString("authInternalUsers:\n")
	for _, u := range w5Users {
		fmt.Fprintf(&sb, "- user: %s\n  pass: %s\n", u.user, u.pass)
		if u.ipNet != "" {
			fmt.Fprintf(&sb, "  ips: ['%s']\n", u.ipNet)
		}
		sb.WriteString("  permissions:\n")
		switch {
		case u.publish:
			sb.WriteString("  - action: publish\n")
		case u.readPaths == nil:
			sb.WriteString("  - action: read\n")
		default:
			for _, p := range u.readPaths {
				fmt.Fprintf(&sb, "  - action: read\n    path: %s\n", p)
			}
		}
	}
	hk := ""
	if h.body.Hooks {
		hk = "    runOnRead: simhook read\n    runOnUnread: simhook unread\n"
	}
	// (the last one is a regular-expression entry: its paths exist only while somebody uses them)
	sb.WriteString("paths:\n  cam1:\n" + hk + "  cam2:\n" + hk + "  '~^dyn[0-9]+$':\n" + hk)
	return sb.String()
}

// ---- publisher

type w5Pub struct {
	name   string
	id     uuid.UUID
	closed *simrt.Signal
}

func (p *w5Pub) Log(level logger.Level, format string, args ...any) {}
func (p *w5Pub) APISourceDescribe() *defs.APIPathSource {
	return &defs.APIPathSource{Type: defs.APIPathSourceTypeRTMPConn, ID: p.id.String()}
}
func (p *w5Pub) Close() {
	simrt.Rec("pub.close", p.name, "", 0, 0, 0)
	p.closed.Fire()
}

func (h *w5Harness) runPub(idx int, a *w5Actor) {
	time.Sleep(time.Duration(a.StartMs) * time.Millisecond)
	for si, op := range a.Ops {
		if simrt.Aborted() {
			return
		}
		if op.Op == "sleep" {
			time.Sleep(time.Duration(op.Ms) * time.Millisecond)
			continue
		}
		p := &w5Pub{name: fmt.Sprintf("pub%d.%d", idx, si), closed: simrt.NewSignal()}
		p.id[0], p.id[1], p.id[6], p.id[8] = 1, byte(idx*8+si), 0x40, 0x80
		simrt.Touch(p)
		medi := &description.Media{Type: description.MediaTypeVideo, Formats: []format.Format{&format.H264{PayloadTyp: 96, SPS: w5SPS, PPS: w5PPS, PacketizationMode: 1}}}
		desc := &description.Session{Medias: []*description.Media{medi}}
		res, err := h.pm.AddPublisher(defs.PathAddPublisherReq{
			Author: p, Desc: desc, ReplaceNTP: true,
			AccessRequest: defs.PathAccessRequest{Name: a.Path, Publish: true, Proto: auth.ProtocolRTMP, ID: &p.id,
				Credentials: &auth.Credentials{User: a.User, Pass: a.Pass}, IP: net.ParseIP(a.IP)},
		})
		if err != nil {
			simrt.Rec("pub.add.err", p.name, err.Error(), 0, 0, 0)
			continue
		}
		simrt.Rec("pub.add.ok", p.name, a.Path, 0, 0, 0)
		const frameMs = 100
		for n := int64(0); n*frameMs < op.Ms && !p.closed.Fired(); n++ {
			nalu := []byte{5, byte(n >> 16), byte(n >> 8), byte(n), 1, 2, 3, 4, 5, 6, 7, 8}
			if op.BigAtMs > 0 && n == op.BigAtMs/frameMs {
				// fault: a frame larger than hlsSegmentMaxSize (the muxer instance fails)
				nalu = append(nalu, make([]byte, 100*1024)...)
				simrt.Count("fault.hls.oversize-frame", 1)
				simrt.Rec("pub.bigframe", p.name, a.Path, 0, 0, 0)
			}
			res.SubStream.WriteUnit(medi, medi.Formats[0], &unit.Unit{PTS: n * frameMs * 90, Payload: unit.PayloadH264{w5SPS, w5PPS, nalu}})
			select {
			case <-time.After(frameMs * time.Millisecond):
			case <-p.closed.C():
			}
		}
		if a.Path == "cam1" && si+1 < len(a.Ops) && a.Ops[si+1].Op == "sleep" && a.Ops[si+1].Ms == 0 && h.nreconn < len(h.reconn) {
			// a reconnection: the viewers that wait for it start now; the scheduler decides how
			// far they get before the publisher leaves
			close(h.reconn[h.nreconn])
			h.nreconn++
			for i, n := 0, []int{0, 5, 10, 15, 20, 25, 30, 40, 60, 100}[simrt.Choose("reconn.lead", 10)]; i < n; i++ {
				simrt.Yield("reconn.lead")
			}
		}
		if a.Path == "cam1" && si == len(a.Ops)-1 && len(h.reconn) > 0 && !simrt.Aborted() {
			// C18 runs: before the publisher leaves for good (which closes every session of the
			// path), a quiet period, then every live session must be a reader of its path
			simrt.Calm()
			time.Sleep(2 * time.Second)
			simrt.Settle()
			h.sessionsAreReaders()
		}
		h.mu.Lock()
		kicker := h.leaveCh != nil
		if kicker {
			// C40 runs: whoever waits for a publisher to leave (the kicker) starts now; the
			// scheduler decides how far it gets before the publisher is gone
			close(h.leaveCh)
			h.leaveCh = make(chan struct{})
		}
		h.mu.Unlock()
		if kicker {
			for i, n := 0, []int{0, 5, 10, 20, 40, 80}[simrt.Choose("leave.lead", 6)]; i < n; i++ {
				simrt.Yield("leave.lead")
			}
		}
		simrt.Rec("pub.remove", p.name, a.Path, 0, 0, 0)
		res.Path.RemovePublisher(defs.PathRemovePublisherReq{Author: p})
	}
}

// ---- requests

type w5Req struct {
	who     string
	ip      string
	path    string // path name (cam1)
	file    string // index.m3u8, a media playlist, a segment
	query   string
	cookies map[string]string
	user    string
	pass    string
	bearer  bool   // credentials as Authorization: Bearer user:pass
	cdn     string // Authorization: Bearer <cdn>
	xff     string
}

type w5Res struct {
	status   int
	location string
	cookie   map[string]string
	body     string
	ctype    string
}

func (h *w5Harness) do(r *w5Req) *w5Res {
	srv := httpp.SimServer(":8888")
	if srv == nil {
		return &w5Res{status: 503}
	}
	u := "/" + r.path + "/" + r.file
	if r.query != "" {
		u += "?" + r.query
	}
	req := httptest.NewRequest(http.MethodGet, u, nil)
	req.RemoteAddr = net.JoinHostPort(r.ip, "40000")
	switch {
	case r.cdn != "":
		req.Header.Set("Authorization", "Bearer "+r.cdn)
	case r.user != "" && r.bearer:
		req.Header.Set("Authorization", "Bearer "+r.user+":"+r.pass)
	case r.user != "":
		req.SetBasicAuth(r.user, r.pass)
	}
	if r.xff != "" {
		req.Header.Set("X-Forwarded-For", r.xff)
	}
	for k, v := range r.cookies {
		req.AddCookie(&http.Cookie{Name: k, Value: v})
	}
	callSeq := simrt.Rec("hls.req", r.who, u+" from "+r.ip, 0, 0, 0)
	rr := httptest.NewRecorder()
	func() {
		defer func() {
			if rec := recover(); rec != nil {
				h.violate("*", "panic", "request %s from %s made the handler panic: %v\n%s", u, r.ip, rec, w5Stack())
			}
		}()
		srv.SimServe(rr, req)
	}()
	// requests released together inside gohlslib line up here and continue one at a time
	simrt.Yield("core/zz_world.go:served")
	out := &w5Res{status: rr.Code, location: rr.Header().Get("Location"), body: rr.Body.String(), ctype: rr.Header().Get("Content-Type"), cookie: map[string]string{}}
	for _, c := range rr.Result().Cookies() {
		out.cookie[c.Name] = c.Value
	}
	simrt.Rec("hls.res", r.who, u, int64(out.status), int64(len(out.body)), 0)
	h.judge(r, out, callSeq)
	return out
}

// judge is the oracle of C43 (and of C03 for HLS sessions), applied to every response.
func (h *w5Harness) judge(r *w5Req, res *w5Res, callSeq int64) {
	cdnOK := h.body.CDNSecret != "" && r.cdn == h.body.CDNSecret
	what := fmt.Sprintf("%s: GET /%s/%s?%s from %s (cookies %v, user %q, cdn bearer %q, x-forwarded-for %q) answered %d with %d bytes",
		r.who, r.path, r.file, r.query, r.ip, r.cookies, r.user, r.cdn, r.xff, res.status, len(res.body))
	isPlaylist := strings.HasSuffix(r.file, ".m3u8")
	if r.file == "index.m3u8" {
		q, _ := url.ParseQuery(r.query)
		if res.status == http.StatusOK && q.Get("cookieCheck") == "1" && !cdnOK {
			// a session was created for this client
			h.mu.Lock()
			h.created++
			h.mu.Unlock()
			if !w5MayRead(r.user, r.pass, r.ip, r.path) {
				h.violate("C43", "session-for-unauthorized", "%s: a session was created although these credentials may not read %q from that address", what, r.path)
			}
			// C03: the attach must rest on an admission of exactly this client for this path
			admitted := false
			h.mu.Lock()
			for _, a := range h.auths {
				if a.seq > callSeq && a.ok && !a.publish && a.path == r.path && a.user == r.user && a.pass == r.pass && a.ip == net.ParseIP(r.ip).String() {
					admitted = true
				}
			}
			h.mu.Unlock()
			if !admitted {
				h.violate("C03", "attached-without-admission", "%s: the HLS session became a reader of %q but the authentication manager did not admit these credentials and this address for reading that path during the request", what, r.path)
			}
		}
		if res.status == http.StatusOK && q.Get("cookieCheck") != "1" && !cdnOK && len(res.body) > 0 && strings.Contains(res.body, "#EXTM3U") {
			h.violate("C43", "playlist-without-session", "%s: a playlist was served before any session was created", what)
		}
		return
	}
	// media playlists and segments
	if res.status != http.StatusOK || len(res.body) == 0 {
		h.mu.Lock()
		h.refused++
		h.mu.Unlock()
		return
	}
	allowed := cdnOK
	var carried []string
	if v, ok := r.cookies["hlsSession"]; ok {
		carried = append(carried, v)
	}
	if v := w5QuerySecret("?" + r.query); v != "" {
		carried = append(carried, v)
	}
	h.mu.Lock()
	for _, s := range carried {
		if is, ok := h.issued[s]; ok && is.path == r.path && is.ip == r.ip {
			allowed = true
		}
	}
	h.served++
	h.mu.Unlock()
	if !allowed {
		kind := "segment"
		if isPlaylist {
			kind = "media playlist"
		}
		h.violate("C43", "served-without-session", "%s: a %s was served, but the request carries neither the secret of a session created for %q from %s nor the CDN secret (carried: %v)", what, kind, r.path, r.ip, carried)
	}
}

func w5Split(uri string) (file, query string) {
	if i := strings.Index(uri, "?"); i >= 0 {
		return uri[:i], uri[i+1:]
	}
	return uri, ""
}

// ---- viewer

func (h *w5Harness) runViewer(idx int, a *w5Actor) {
	if a.AtReconn > 0 && a.AtReconn <= len(h.reconn) {
		<-h.reconn[a.AtReconn-1]
		time.Sleep(time.Duration(a.StartMs) * time.Millisecond)
	} else {
		time.Sleep(time.Duration(a.StartMs) * time.Millisecond)
	}
	who := fmt.Sprintf("viewer%d", idx)
	for _, op := range a.Ops {
		if simrt.Aborted() {
			return
		}
		if op.Op == "sleep" {
			time.Sleep(time.Duration(op.Ms) * time.Millisecond)
			continue
		}
		base := &w5Req{who: who, ip: a.IP, path: a.Path, user: a.User, pass: a.Pass, bearer: a.Bearer, cookies: map[string]string{}, xff: a.XFF}
		r1 := *base
		r1.file = "index.m3u8"
		res := h.do(&r1)
		if res.status != http.StatusFound {
			continue
		}
		if a.Cookies {
			for k, v := range res.cookie {
				base.cookies[k] = v
			}
		}
		_, q := w5Split(res.location)
		r2 := *base
		r2.file, r2.query = "index.m3u8", q
		res = h.do(&r2)
		if res.status != http.StatusOK {
			continue
		}
		secret := res.cookie["hlsSession"]
		uris := w5URIs(res.body)
		if secret == "" {
			for _, u := range uris {
				if s := w5QuerySecret(u); s != "" {
					secret = s
				}
			}
		}
		if secret == "" {
			simrt.Rec("viewer.nosecret", who, "", 0, 0, 0)
			continue
		}
		h.mu.Lock()
		h.issued[secret] = w5Issued{path: a.Path, ip: a.IP}
		ln := &w5Learned{secret: secret, path: a.Path, ip: a.IP}
		h.learned[idx] = ln
		h.mu.Unlock()
		if a.Cookies {
			for k, v := range res.cookie {
				base.cookies[k] = v
			}
		}
		var mediaURI string
		for _, u := range uris {
			if f, _ := w5Split(u); strings.HasSuffix(f, ".m3u8") {
				mediaURI = u
			}
		}
		if mediaURI == "" {
			continue
		}
		for n := int64(0); n < op.N && !simrt.Aborted(); n++ {
			mf, mq := w5Split(mediaURI)
			rm := *base
			rm.file, rm.query = mf, mq
			res = h.do(&rm)
			if res.status == http.StatusOK {
				h.mu.Lock()
				ln.media = mf
				h.mu.Unlock()
				segs := w5URIs(res.body)
				if len(segs) > 0 {
					sf, sq := w5Split(segs[len(segs)-1])
					rs := *base
					rs.file, rs.query = sf, sq
					if h.do(&rs).status == http.StatusOK {
						h.mu.Lock()
						ln.segment = sf
						h.mu.Unlock()
					}
				}
			}
			time.Sleep(time.Duration(op.Ms) * time.Millisecond)
		}
	}
}

// ---- attacker

func (h *w5Harness) runAttacker(idx int, a *w5Actor) {
	time.Sleep(time.Duration(a.StartMs) * time.Millisecond)
	who := fmt.Sprintf("attacker%d", idx)
	for _, op := range a.Ops {
		for n := int64(0); n < op.N && !simrt.Aborted(); n++ {
			h.mu.Lock()
			var v w5Learned
			if l := h.learned[op.From]; l != nil {
				v = *l
			}
			h.mu.Unlock()
			media, segment := v.media, v.segment
			if media == "" {
				media = "video1_stream.m3u8"
			}
			if segment == "" {
				segment = "seg0.ts"
			}
			r := &w5Req{who: who + "/" + op.How, ip: a.IP, path: v.path, cookies: map[string]string{}}
			if r.path == "" {
				r.path = a.Path
			}
			switch op.How {
			case "otherip":
				r.query = "session=" + v.secret
			case "cookieonly":
				r.cookies["hlsSession"] = v.secret
			case "otherpath":
				// the victim itself (same address) tries its secret on the other path
				r.ip = v.ip
				if r.ip == "" {
					r.ip = a.IP
				}
				if v.path == "cam1" {
					r.path = "cam2"
				} else {
					r.path = "cam1"
				}
				r.query = "session=" + v.secret
			case "xff":
				r.query = "session=" + v.secret
				r.xff = v.ip
			case "none":
			case "garbage":
				r.query = "session=" + strings.Repeat("z", 36)
			case "random":
				r.query = "session=" + uuid.UUID{1, 2, 3, 4, 5, 6, 0x47, 8, 0x89, byte(idx), byte(n)}.String()
			case "wrongcdn":
				// an unrelated value, or a near miss of the configured secret
				r.cdn = "not-the-secret"
				if s := h.body.CDNSecret; s != "" {
					near := []string{"not-the-secret", strings.ToUpper(s), strings.ToLower(s), s[:len(s)-1], s + "x", s[1:], "x" + s}
					r.cdn = near[(idx+int(n))%len(near)]
				}
				// like a CDN, it asks for the multivariant playlist first
				ri := *r
				ri.file = "index.m3u8"
				h.do(&ri)
			case "cdn":
				r.cdn = h.body.CDNSecret
				ri := *r
				ri.file = "index.m3u8"
				res := h.do(&ri)
				if res.status == http.StatusOK {
					for _, u := range w5URIs(res.body) {
						if f, _ := w5Split(u); strings.HasSuffix(f, ".m3u8") {
							media = f
						}
					}
				}
			}
			rm := *r
			rm.file = media
			h.do(&rm)
			rs := *r
			rs.file = segment
			h.do(&rs)
			time.Sleep(time.Duration(op.Ms) * time.Millisecond)
		}
	}
}

// ---- main

func (h *w5Harness) main() {
	dir := filepath.Join(os.TempDir(), "w5run")
	os.RemoveAll(dir)
	os.MkdirAll(dir, 0o755)
	defer os.RemoveAll(dir)
	fp := filepath.Join(dir, "mediamtx.yml")
	os.WriteFile(fp, []byte(h.yaml()), 0o644)
	c0, _, err := conf.Load(fp, nil, nil)
	if err != nil {
		simrt.Violate("!", "infra-conf", "%v", err)
		return
	}
	// simulated hook processes: the start commands run until terminated, the stop commands 20 ms
	externalcmd.SimRun = func(cmdstr string, env externalcmd.Environment, terminate chan struct{}) (int, bool) {
		simrt.Rec("proc.start", cmdstr, env["MTX_READER_ID"], 0, 0, 0)
		if strings.HasSuffix(cmdstr, "unread") {
			select {
			case <-time.After(20 * time.Millisecond):
				return 0, false
			case <-terminate:
				return 0, true
			}
		}
		<-terminate
		return 0, true
	}
	pool := &externalcmd.Pool{}
	pool.Initialize()
	am := &auth.Manager{Method: conf.AuthMethodInternal, InternalUsers: c0.AuthInternalUsers, ReadTimeout: 10 * time.Second}
	h.pm = &pathManager{
		logLevel:          conf.LogLevel(logger.Debug),
		rtspAddress:       ":8554",
		readTimeout:       c0.ReadTimeout,
		writeTimeout:      c0.WriteTimeout,
		writeQueueSize:    c0.WriteQueueSize,
		udpReadBufferSize: c0.UDPReadBufferSize,
		udpMaxPayloadSize: c0.UDPMaxPayloadSize,
		rtpMaxPayloadSize: 1400,
		pathConfs:         c0.Paths,
		authManager:       &w5AuthProxy{h: h, m: am},
		externalCmdPool:   pool,
		parent:            h,
	}
	h.pm.initialize()
	variant := conf.HLSVariant(gohlslib.MuxerVariantMPEGTS)
	if h.body.Variant == "fmp4" {
		variant = conf.HLSVariant(gohlslib.MuxerVariantFMP4)
	}
	h.srv = &hls.Server{
		Address:         ":8888",
		AlwaysRemux:     h.body.AlwaysRemux,
		Variant:         variant,
		SegmentCount:    3,
		SegmentDuration: conf.Duration(time.Duration(h.body.SegmentMs) * time.Millisecond),
		PartDuration:    conf.Duration(200 * time.Millisecond),
		SegmentMaxSize:  w5SegmentMax(h.body.SegmentMaxKB),
		CDNSecret:       h.body.CDNSecret,
		ReadTimeout:     conf.Duration(10 * time.Second),
		WriteTimeout:    conf.Duration(10 * time.Second),
		MuxerCloseAfter: conf.Duration(60 * time.Second),
		ExternalCmdPool: pool,
		PathManager:     h.pm,
		Parent:          h,
	}
	if err = h.srv.Initialize(); err != nil {
		simrt.Violate("!", "infra", "hls server: %v", err)
		return
	}
	simrt.Rec("init.done", "", "", 0, 0, 0)
	for _, a := range h.body.Actors {
		if a.Kind == "kick" && h.leaveCh == nil {
			h.leaveCh = make(chan struct{})
		}
	}
	for _, a := range h.body.Actors {
		if a.Kind == "pub" && a.Path == "cam1" {
			for _, op := range a.Ops {
				if op.Op == "sleep" && op.Ms == 0 {
					h.reconn = append(h.reconn, make(chan struct{}))
				}
			}
		}
	}

	var wg sync.WaitGroup
	for i := range h.body.Actors {
		i := i
		a := &h.body.Actors[i]
		if a.Kind == "nop" || len(a.Ops) == 0 {
			continue
		}
		wg.Add(1)
		go func() {
			defer wg.Done()
			switch a.Kind {
			case "pub":
				h.runPub(i, a)
			case "viewer":
				h.runViewer(i, a)
			case "attacker":
				h.runAttacker(i, a)
			case "kick":
				h.runKicker(i, a)
			}
		}()
	}
	wg.Wait()
	simrt.Rec("actors.done", "", "", 0, 0, 0)
	// faults stop here (no more stalled clocks, no more delayed goroutines); the final check
	// runs after the quiet period, once everything in flight has been digested
	simrt.Calm()
	time.Sleep(time.Duration(h.body.TailMs) * time.Millisecond)
	simrt.Settle()
	if !simrt.Aborted() {
		h.sessionsAreReaders()
	}
	simrt.Rec("shutdown.call", "", "", 0, 0, 0)
	h.srv.Close()
	h.pm.close()
	if h.body.Hooks && !simrt.Aborted() {
		// every session is gone: no read pair may be open (an open pair also keeps its command
		// running, and the pool below would wait for it for ever)
		h.mu.Lock()
		ids := make([]string, 0, len(h.hookOpen))
		for id := range h.hookOpen {
			ids = append(ids, id)
		}
		sort.Strings(ids)
		bad := ""
		for _, id := range ids {
			if h.hookOpen[id] != h.hookClosed[id] && bad == "" {
				bad = fmt.Sprintf("after the HLS server and the path manager have shut down, the read pair of HLS session %s was opened %d time(s) and closed %d time(s)", id, h.hookOpen[id], h.hookClosed[id])
			}
		}
		h.mu.Unlock()
		if bad != "" {
			simrt.Violate("C20", "pair-left-open", "%s", bad)
			return
		}
	}
	pool.Close()
	simrt.Rec("shutdown.ret", "", "", 0, 0, 0)
}

// sessionsAreReaders: in the quiet period after the last actor every HLS session that is
// still alive is a reader of its path. A session that the path detached when its stream went
// away and that was not closed is alive, is served from the next stream, and is in nobody's
// reader list (C18: "when the stream becomes unavailable every reader is detached and closed").
func (h *w5Harness) sessionsAreReaders() {
	l, err := h.srv.APISessionsList()
	if err != nil {
		return
	}
	items := append([]defs.APIHLSSession(nil), l.Items...)
	sort.Slice(items, func(i, j int) bool { return items[i].ID.String() < items[j].ID.String() })
	for _, sx := range items {
		p, err := h.pm.APIPathsGet(sx.Path)
		found := false
		if err == nil {
			for _, r := range p.Readers {
				if r.Type == defs.APIPathReaderTypeHLSSession && r.ID == sx.ID.String() {
					found = true
				}
			}
		}
		simrt.Rec("final.session", sx.Path, sx.ID.String(), 0, 0, 0)
		if !found {
			// (a session that expired between the two queries is not a survivor: it must
			// still be alive after the readers were listed)
			if _, err2 := h.srv.APISessionsGet(sx.ID); err2 != nil {
				continue
			}
		}
		if !found {
			simrt.Violate("C18", "session-outlives-stream", "HLS session %s (%s, path %q) is alive in a quiet period but is not among the readers of its path (%v): it was detached from a stream that went away and was not closed",
				sx.ID.String()[:8], sx.RemoteAddr, sx.Path, err)
			return
		}
	}
}

func (w *w5World) Run(t *testing.T, sc *simrt.Scenario, cfg simrt.Config) simrt.Outcome {
	var b w5Body
	if err := json.Unmarshal(sc.Body, &b); err != nil {
		return simrt.Outcome{Violations: []simrt.Violation{{Property: "!", Clause: "bad-scenario", Detail: err.Error()}}}
	}
	h := &w5Harness{body: &b, issued: map[string]w5Issued{}, learned: map[int]*w5Learned{}}
	httpp.SimReset()
	res := simrt.Run(t, cfg, h.main)
	out := simrt.Outcome{Res: res}
	out.Violations = append(out.Violations, res.Violations...)
	out.Violations = append(out.Violations, h.viol...)
	out.Nontrivial = h.served > 0 && h.refused > 0
	out.Abstract = []string{fmt.Sprintf("%s s%d r%d c%d", b.Variant, h.served, h.refused, h.created), res.Hash}
	out.Extra = map[string]any{"served": h.served, "refused": h.refused, "sessions_created": h.created}
	return out
}

func w5SegmentMax(kb int64) conf.StringSize {
	if kb <= 0 {
		return 50 * 1024 * 1024
	}
	return conf.StringSize(kb * 1024)
}
