package playback

// Independent reader of fMP4 files for the W3 oracles. It shares no code with
// the playback package or with the MP4 libraries the server uses: it walks
// the ISO BMFF box structure directly.

import (
	"encoding/binary"
	"fmt"
)

type w3Box struct {
	typ              string
	start, body, end int
}

// w3Boxes parses consecutive complete boxes inside b[from:to]. It stops at
// the first box that is incomplete or malformed and returns where it stopped.
func w3Boxes(b []byte, from, to int) ([]w3Box, int) {
	var out []w3Box
	off := from
	for off+8 <= to {
		size := int(binary.BigEndian.Uint32(b[off:]))
		typ := string(b[off+4 : off+8])
		body := off + 8
		if size == 1 {
			if off+16 > to {
				break
			}
			size = int(binary.BigEndian.Uint64(b[off+8:]))
			body = off + 16
		}
		if size < 8 || off+size > to || size > 1<<30 {
			break
		}
		for _, c := range typ {
			if c < 0x20 || c > 0x7e {
				return out, off
			}
		}
		out = append(out, w3Box{typ: typ, start: off, body: body, end: off + size})
		off += size
	}
	return out, off
}

func w3Child(b []byte, parent w3Box, skip int, typ string) *w3Box {
	cs, _ := w3Boxes(b, parent.body+skip, parent.end)
	for i := range cs {
		if cs[i].typ == typ {
			return &cs[i]
		}
	}
	return nil
}

func w3ChildrenOf(b []byte, parent w3Box, skip int, typ string) []w3Box {
	cs, _ := w3Boxes(b, parent.body+skip, parent.end)
	var out []w3Box
	for _, c := range cs {
		if c.typ == typ {
			out = append(out, c)
		}
	}
	return out
}

type w3Track struct {
	id        int
	timescale uint32
	video     bool
}

type w3Mtxi struct {
	stream [16]byte
	number uint64
	dts    int64
	ntp    int64
}

type w3Init struct {
	tracks     []w3Track
	mvhdScale  uint32
	mvhdDur    uint32
	mvhdDurOff int // offset of the 32-bit duration field of a version 0 mvhd
	mtxi       *w3Mtxi
	end        int // end of moov
}

func (in *w3Init) track(id int) *w3Track {
	for i := range in.tracks {
		if in.tracks[i].id == id {
			return &in.tracks[i]
		}
	}
	return nil
}

// w3ParseInit parses ftyp+moov at the start of b. ok is false when the
// header is incomplete or malformed.
func w3ParseInit(b []byte) (*w3Init, bool) {
	top, _ := w3Boxes(b, 0, len(b))
	if len(top) < 2 || top[0].typ != "ftyp" || top[1].typ != "moov" {
		return nil, false
	}
	moov := top[1]
	in := &w3Init{end: moov.end}
	mvhd := w3Child(b, moov, 0, "mvhd")
	if mvhd == nil || mvhd.end-mvhd.body < 20 || b[mvhd.body] != 0 {
		return nil, false
	}
	in.mvhdScale = binary.BigEndian.Uint32(b[mvhd.body+12:])
	in.mvhdDurOff = mvhd.body + 16
	in.mvhdDur = binary.BigEndian.Uint32(b[in.mvhdDurOff:])
	for _, trak := range w3ChildrenOf(b, moov, 0, "trak") {
		tkhd := w3Child(b, trak, 0, "tkhd")
		mdia := w3Child(b, trak, 0, "mdia")
		if tkhd == nil || mdia == nil {
			return nil, false
		}
		var tr w3Track
		if b[tkhd.body] == 1 {
			tr.id = int(binary.BigEndian.Uint32(b[tkhd.body+20:]))
		} else {
			tr.id = int(binary.BigEndian.Uint32(b[tkhd.body+12:]))
		}
		mdhd := w3Child(b, *mdia, 0, "mdhd")
		hdlr := w3Child(b, *mdia, 0, "hdlr")
		if mdhd == nil || hdlr == nil {
			return nil, false
		}
		if b[mdhd.body] == 1 {
			tr.timescale = binary.BigEndian.Uint32(b[mdhd.body+20:])
		} else {
			tr.timescale = binary.BigEndian.Uint32(b[mdhd.body+12:])
		}
		tr.video = string(b[hdlr.body+8:hdlr.body+12]) == "vide"
		in.tracks = append(in.tracks, tr)
	}
	if udta := w3Child(b, moov, 0, "udta"); udta != nil {
		if mx := w3Child(b, *udta, 0, "mtxi"); mx != nil && mx.end-mx.body >= 44 {
			m := &w3Mtxi{}
			copy(m.stream[:], b[mx.body+4:])
			m.number = binary.BigEndian.Uint64(b[mx.body+20:])
			m.dts = int64(binary.BigEndian.Uint64(b[mx.body+28:]))
			m.ntp = int64(binary.BigEndian.Uint64(b[mx.body+36:]))
			in.mtxi = m
		}
	}
	return in, len(in.tracks) > 0
}

type w3Sample struct {
	track   int
	dts     int64 // in track time scale, relative to the start of the file's timeline
	dur     uint32
	sync    bool
	cto     int32
	payload []byte
	id      int64 // identity embedded by the harness, -1 if none
}

type w3Part struct {
	seq        uint32
	start, end int
	samples    []w3Sample
}

// w3ParseFile parses a whole fMP4 file: header and complete (moof, mdat)
// pairs. tail is the offset of the first byte that is not part of a complete
// pair; order reports structural problems of the complete part of the file.
func w3ParseFile(b []byte) (in *w3Init, parts []w3Part, tail int, problems []string) {
	defer func() {
		if r := recover(); r != nil {
			// content that is not well formed inside a complete box (only possible
			// for zero-filled or corrupted states): treat what follows as tail
			problems = append(problems, fmt.Sprintf("reader gave up: %v", r))
		}
	}()
	in, ok := w3ParseInit(b)
	if !ok {
		return nil, nil, 0, nil
	}
	top, stop := w3Boxes(b, in.end, len(b))
	tail = in.end
	for i := 0; i < len(top); {
		if top[i].typ != "moof" {
			problems = append(problems, fmt.Sprintf("box %q at offset %d where a moof was expected", top[i].typ, top[i].start))
			break
		}
		if i+1 >= len(top) {
			break // moof without its mdat: incomplete tail
		}
		if top[i+1].typ != "mdat" {
			problems = append(problems, fmt.Sprintf("moof at offset %d is followed by %q, not by mdat", top[i].start, top[i+1].typ))
			break
		}
		p, err := w3ParsePart(b, in, top[i], top[i+1])
		if err != nil {
			problems = append(problems, fmt.Sprintf("part at offset %d: %v", top[i].start, err))
			break
		}
		parts = append(parts, p)
		tail = top[i+1].end
		i += 2
	}
	_ = stop
	return in, parts, tail, problems
}

func w3ParsePart(b []byte, in *w3Init, moof, mdat w3Box) (w3Part, error) {
	p := w3Part{start: moof.start, end: mdat.end}
	if mfhd := w3Child(b, moof, 0, "mfhd"); mfhd != nil && mfhd.end-mfhd.body >= 8 {
		p.seq = binary.BigEndian.Uint32(b[mfhd.body+4:])
	}
	for _, traf := range w3ChildrenOf(b, moof, 0, "traf") {
		tfhd := w3Child(b, traf, 0, "tfhd")
		tfdt := w3Child(b, traf, 0, "tfdt")
		trun := w3Child(b, traf, 0, "trun")
		if tfhd == nil || tfdt == nil || trun == nil {
			return p, fmt.Errorf("traf without tfhd/tfdt/trun")
		}
		flags := binary.BigEndian.Uint32(b[tfhd.body:]) & 0xffffff
		o := tfhd.body + 4
		trackID := int(binary.BigEndian.Uint32(b[o:]))
		o += 4
		if flags&0x1 != 0 {
			o += 8
		}
		if flags&0x2 != 0 {
			o += 4
		}
		var defDur, defSize, defFlags uint32
		if flags&0x8 != 0 {
			defDur = binary.BigEndian.Uint32(b[o:])
			o += 4
		}
		if flags&0x10 != 0 {
			defSize = binary.BigEndian.Uint32(b[o:])
			o += 4
		}
		if flags&0x20 != 0 {
			defFlags = binary.BigEndian.Uint32(b[o:])
		}
		var base int64
		if b[tfdt.body] == 1 {
			base = int64(binary.BigEndian.Uint64(b[tfdt.body+4:]))
		} else {
			base = int64(binary.BigEndian.Uint32(b[tfdt.body+4:]))
		}
		tflags := binary.BigEndian.Uint32(b[trun.body:]) & 0xffffff
		ver := b[trun.body]
		o = trun.body + 4
		n := int(binary.BigEndian.Uint32(b[o:]))
		o += 4
		dataOff := moof.start
		if tflags&0x1 != 0 {
			dataOff = moof.start + int(int32(binary.BigEndian.Uint32(b[o:])))
			o += 4
		}
		var firstFlags uint32
		hasFirst := tflags&0x4 != 0
		if hasFirst {
			firstFlags = binary.BigEndian.Uint32(b[o:])
			o += 4
		}
		dts := base
		for i := 0; i < n; i++ {
			s := w3Sample{track: trackID, dts: dts, dur: defDur, id: -1}
			size := defSize
			sf := defFlags
			if tflags&0x100 != 0 {
				s.dur = binary.BigEndian.Uint32(b[o:])
				o += 4
			}
			if tflags&0x200 != 0 {
				size = binary.BigEndian.Uint32(b[o:])
				o += 4
			}
			if tflags&0x400 != 0 {
				sf = binary.BigEndian.Uint32(b[o:])
				o += 4
			} else if hasFirst && i == 0 {
				sf = firstFlags
			}
			if tflags&0x800 != 0 {
				if ver == 0 {
					s.cto = int32(binary.BigEndian.Uint32(b[o:]))
				} else {
					s.cto = int32(binary.BigEndian.Uint32(b[o:]))
				}
				o += 4
			}
			if o > trun.end {
				return p, fmt.Errorf("trun entries exceed the box")
			}
			s.sync = sf&0x10000 == 0
			if dataOff < mdat.body || dataOff+int(size) > mdat.end {
				return p, fmt.Errorf("sample data [%d,%d) outside mdat [%d,%d)", dataOff, dataOff+int(size), mdat.body, mdat.end)
			}
			s.payload = b[dataOff : dataOff+int(size)]
			tr := in.track(trackID)
			if tr == nil {
				return p, fmt.Errorf("traf of unknown track %d", trackID)
			}
			s.id = w3SampleID(s.payload, tr.video)
			p.samples = append(p.samples, s)
			dataOff += int(size)
			dts += int64(s.dur)
		}
	}
	return p, nil
}

// w3SampleID extracts the identity the harness embedded in a payload:
// video: AVCC, the NAL unit of type 1 or 5 carries a 32-bit id after its
// first byte; audio: the first four bytes.
func w3SampleID(pl []byte, video bool) int64 {
	if !video {
		// an MPEG audio frame: the id follows the four bytes of its header (ids stay
		// below 2^24, an LPCM payload never starts with the sync word)
		if len(pl) >= 8 && pl[0] == 0xff && pl[1]&0xe0 == 0xe0 {
			return int64(binary.BigEndian.Uint32(pl[4:]))
		}
		if len(pl) >= 4 {
			return int64(binary.BigEndian.Uint32(pl))
		}
		return -1
	}
	for o := 0; o+4 <= len(pl); {
		n := int(binary.BigEndian.Uint32(pl[o:]))
		o += 4
		if n <= 0 || o+n > len(pl) {
			return -1
		}
		t := pl[o] & 0x1f
		if (t == 1 || t == 5) && n >= 5 {
			return int64(binary.BigEndian.Uint32(pl[o+1:]))
		}
		o += n
	}
	return -1
}
