package playback

// Oracles of W3 (not instrumented): final-file checks, crash-state
// enumeration, corruption probes, playback-vs-disk comparison, retention.

import (
	"runtime/metrics"
	"bytes"
	"encoding/binary"
	"encoding/json"
	"fmt"
	"math/rand"
	"net/http/httptest"
	"net/url"
	"os"
	"path/filepath"
	"runtime/debug"
	"sort"
	"strings"
	"time"

	"github.com/gin-gonic/gin"

	"github.com/bluenviron/mediamtx/internal/auth"
	"github.com/bluenviron/mediamtx/internal/conf"
	"github.com/bluenviron/mediamtx/internal/zzsim/simrt"
)

type w3AllowAll struct{}

func (w3AllowAll) Authenticate(_ *auth.Request) (string, *auth.Error) { return "", nil }

type w3File struct {
	name   string
	data   []byte
	init   *w3Init
	parts  []w3Part
	tail   int
	bounds []int // write boundaries: end of header, end of every part
}

type w3Analysis struct {
	h       *w3Harness
	prop    string
	scratch string
	srv     *Server

	files      int
	parts      int
	states     int
	mutations  int
	queries    int
	listFailTorn int
	journalWrites, journalInPlace int
	violations []simrt.Violation
	abstract   []string
	stateN     int
	lastGetFailure string
}

func (a *w3Analysis) violate(prop, clause, format string, args ...any) {
	d := fmt.Sprintf(format, args...)
	for _, v := range a.violations {
		if v.Property == prop && v.Clause == clause {
			return // one example per clause and run is enough
		}
	}
	a.violations = append(a.violations, simrt.Violation{Property: prop, Clause: clause, Detail: d})
}

func init() { gin.SetMode(gin.ReleaseMode) }

// call invokes a handler of the real playback server without a listener.
func (a *w3Analysis) call(root, endpoint, rawQuery string) (status int, body []byte, panicText string) {
	a.srv.ReloadPathConfs(map[string]*conf.Path{
		"cam": {Name: "cam", RecordPath: a.h.recordPathFormat(root), RecordFormat: conf.RecordFormatFMP4},
	})
	rr := httptest.NewRecorder()
	ctx, _ := gin.CreateTestContext(rr)
	ctx.Request = httptest.NewRequest("GET", "/"+endpoint+"?"+rawQuery, nil)
	allocBefore := w3AllocBytes()
	defer func() {
		// a request on a directory of a few hundred kilobytes that makes the server allocate
		// gigabytes ends the process wherever that much memory is not free ("fatal error: out of
		// memory" cannot be recovered from): the sizes that drive allocations come from the files
		if d := w3AllocBytes() - allocBefore; d > 512<<20 {
			a.violate("C28", "allocation-unbounded", "%s?%s made the server allocate %d MiB for a recording directory of %d KiB (a box size read from a damaged file is used for an allocation without being checked)", endpoint, rawQuery, d>>20, a.dirBytes(root)>>10)
		}
	}()
	func() {
		defer func() {
			if r := recover(); r != nil {
				panicText = fmt.Sprintf("%v\n%s", r, debug.Stack())
			}
		}()
		if endpoint == "list" {
			a.srv.onList(ctx)
		} else {
			a.srv.onGet(ctx)
		}
	}()
	a.queries++
	return rr.Code, rr.Body.Bytes(), panicText
}

// w3AllocBytes is the cumulative number of bytes allocated by this process (no stop-the-world).
func w3AllocBytes() uint64 {
	sm := []metrics.Sample{{Name: "/gc/heap/allocs:bytes"}}
	metrics.Read(sm)
	if sm[0].Value.Kind() == metrics.KindUint64 {
		return sm[0].Value.Uint64()
	}
	return 0
}

func (a *w3Analysis) dirBytes(root string) int64 {
	var n int64
	filepath.Walk(root, func(_ string, fi os.FileInfo, err error) error {
		if err == nil && !fi.IsDir() {
			n += fi.Size()
		}
		return nil
	})
	return n
}

type w3ListEntry struct {
	Start    time.Time `json:"start"`
	Duration float64   `json:"duration"`
	URL      string    `json:"url"`
}

// served returns the identities of the samples the playback server serves for
// the whole recording in root (list, then get of every listed span).
func (a *w3Analysis) served(root string) (ids map[int64]bool, failure string) {
	a.lastGetFailure = ""
	st, body, pn := a.call(root, "list", "path=cam")
	if pn != "" {
		return nil, "list panicked: " + pn
	}
	if st == 404 {
		return map[int64]bool{}, ""
	}
	if st != 200 {
		return nil, fmt.Sprintf("list answered %d: %s", st, strings.TrimSpace(string(body)))
	}
	var entries []w3ListEntry
	if err := json.Unmarshal(body, &entries); err != nil {
		return nil, "list answered invalid JSON: " + err.Error()
	}
	ids = map[int64]bool{}
	for _, e := range entries {
		q := url.Values{}
		q.Set("path", "cam")
		q.Set("start", e.Start.Format(time.RFC3339Nano))
		q.Set("duration", fmt.Sprintf("%f", e.Duration+10))
		q.Set("format", "fmp4")
		st, body, pn = a.call(root, "get", q.Encode())
		if pn != "" {
			return nil, "get panicked: " + pn
		}
		if st != 200 {
			// a listed span that cannot be fetched only matters if samples of complete
			// parts end up missing: remember why, the caller decides
			a.lastGetFailure = fmt.Sprintf("get of the listed span %s answered %d: %s", e.Start.Format(time.RFC3339Nano), st, strings.TrimSpace(string(body)))
			continue
		}
		_, parts, _, _ := w3ParseFile(body)
		for _, p := range parts {
			for _, s := range p.samples {
				ids[s.id] = true
			}
		}
	}
	return ids, ""
}

func (a *w3Analysis) loadFiles() []*w3File {
	dir := filepath.Join(a.h.dir, "cam")
	ents, _ := os.ReadDir(dir)
	var out []*w3File
	for _, e := range ents {
		if e.IsDir() {
			continue
		}
		data, err := os.ReadFile(filepath.Join(dir, e.Name()))
		if err != nil {
			continue
		}
		f := &w3File{name: e.Name(), data: data}
		f.init, f.parts, f.tail, _ = w3ParseFile(data)
		if f.init != nil {
			f.bounds = append(f.bounds, f.init.end)
		}
		for _, p := range f.parts {
			f.bounds = append(f.bounds, p.end)
		}
		out = append(out, f)
	}
	sort.Slice(out, func(i, j int) bool { return out[i].name < out[j].name })
	return out
}

// materialize creates a directory holding files[:i] unchanged and mod as file i.
func (a *w3Analysis) materialize(files []*w3File, i int, mod []byte) string {
	a.stateN++
	root := filepath.Join(a.scratch, fmt.Sprintf("s%d", a.stateN))
	dir := filepath.Join(root, "cam")
	os.MkdirAll(dir, 0o755)
	for k := 0; k < i; k++ {
		if err := os.Link(filepath.Join(a.h.dir, "cam", files[k].name), filepath.Join(dir, files[k].name)); err != nil {
			os.WriteFile(filepath.Join(dir, files[k].name), files[k].data, 0o644)
		}
	}
	if mod != nil {
		os.WriteFile(filepath.Join(dir, files[i].name), mod, 0o644)
	}
	return root
}

func (a *w3Analysis) run() {
	a.srv = &Server{AuthManager: w3AllowAll{}, Parent: w3Log{}}
	os.MkdirAll(a.scratch, 0o755)
	files := a.loadFiles()
	a.files = len(files)
	if len(files) == 0 {
		return
	}
	writtenByID := map[int64]*w3Written{}
	for i := range a.h.written {
		writtenByID[a.h.written[i].ID] = &a.h.written[i]
	}
	if a.prop == "C27" {
		twice := make([]string, 0, len(a.h.twiceSame))
		for name := range a.h.twiceSame {
			twice = append(twice, name)
		}
		sort.Strings(twice)
		for _, name := range twice {
			a.violate("C27", "segment-overwritten", "the recorder created segment %s twice: two consecutive segments got the same start time, the second creation truncated the file of the first, whose media is lost", name)
		}
	}
	switch a.prop {
	case "C27":
		a.finalChecks(files, writtenByID)
		a.crashStates(files, writtenByID, true)
		a.journalStates(files, true)
	case "C28":
		a.crashStates(files, writtenByID, false)
		a.journalStates(files, false)
		a.corruptions(files)
	case "C29", "C40": // C40: the same requests, for the race detector and the deadlock/leak oracles
		a.finalChecks(files, writtenByID)
		a.queriesVsDisk(files, writtenByID)
	case "C30":
		a.retention(files)
	}
}

// ---- C27 (A), (D) and the part-size bound on the files of a normally closed recording

func (a *w3Analysis) finalChecks(files []*w3File, written map[int64]*w3Written) {
	b := a.h.b
	var prev *w3File
	for _, f := range files {
		a.parts += len(f.parts)
		_, _, _, problems := w3ParseFile(f.data)
		if f.init == nil {
			a.violate("C27", "segment-structure", "segment %s of a normally closed recording has no valid header", f.name)
			continue
		}
		if len(problems) > 0 || f.tail != len(f.data) {
			a.violate("C27", "segment-structure", "segment %s is not a header followed by complete (moof, mdat) parts: %v; %d trailing bytes", f.name, problems, len(f.data)-f.tail)
		}
		if len(f.parts) == 0 {
			continue
		}
		// true duration in the header (milliseconds of the movie time scale)
		var end float64
		firstVideoSync, haveVideo := true, false
		seenVideo := false
		// (recorded time, published time) of the first and of the last sample of every track
		firstOf, lastOf := map[int][2]int64{}, map[int][2]int64{}
		for _, p := range f.parts {
			span := map[int][2]int64{}
			maxDur := map[int]int64{}
			for _, s := range p.samples {
				tr := f.init.track(s.track)
				e := float64(s.dts+int64(s.dur)) / float64(tr.timescale)
				if e > end {
					end = e
				}
				if tr.video {
					haveVideo = true
					if !seenVideo {
						seenVideo = true
						firstVideoSync = s.sync
					}
				}
				sp, ok := span[s.track]
				if !ok {
					sp = [2]int64{s.dts, s.dts + int64(s.dur)}
				}
				if s.dts+int64(s.dur) > sp[1] {
					sp[1] = s.dts + int64(s.dur)
				}
				span[s.track] = sp
				if int64(s.dur) > maxDur[s.track] {
					maxDur[s.track] = int64(s.dur)
				}
				if w := written[s.id]; w == nil {
					a.violate("C27", "unknown-sample", "segment %s holds a sample (id %d) that was never published", f.name, s.id)
				} else {
					if _, ok := firstOf[s.track]; !ok {
						firstOf[s.track] = [2]int64{s.dts, w.PTS}
					}
					lastOf[s.track] = [2]int64{s.dts, w.PTS}
				}
			}
			// what a crash can lose is bounded by one part: no part spans more than
			// partDuration plus its longest sample
			for tid, sp := range span {
				tr := f.init.track(tid)
				d := time.Duration(float64(sp[1]-sp[0]-maxDur[tid]) / float64(tr.timescale) * float64(time.Second))
				if d > time.Duration(b.PartMs)*time.Millisecond+2*time.Millisecond {
					a.violate("C27", "part-too-long", "segment %s: a part spans %s of track %d without its longest sample, partDuration is %dms", f.name, d, tid, b.PartMs)
				}
			}
		}
		// the recorded timeline is the published one: between the first and the last sample of
		// a track the segment spans what the publisher's timestamps span (no B-frames here:
		// decoding time = presentation time; the recorder may clamp one tick, not more)
		tids := make([]int, 0, len(firstOf))
		for tid := range firstOf {
			tids = append(tids, tid)
		}
		sort.Ints(tids)
		for _, tid := range tids {
			tr := f.init.track(tid)
			clock := 90000.0
			if !tr.video && b.AudioCodec == "" {
				clock = 8000
			}
			rec := float64(lastOf[tid][0]-firstOf[tid][0]) / float64(tr.timescale)
			pub := float64(lastOf[tid][1]-firstOf[tid][1]) / clock
			if rec < pub-0.0021 || rec > pub+0.0021 {
				a.violate("C27", "timeline-wrong", "segment %s, track %d: %.3fs between its first and last sample, the publisher's timestamps of these two samples are %.3fs apart", f.name, tid, rec, pub)
			}
		}
		if f.init.mvhdScale == 0 {
			a.violate("C27", "duration-wrong", "segment %s: movie time scale is zero", f.name)
		} else {
			got := float64(f.init.mvhdDur) / float64(f.init.mvhdScale)
			if got < end-0.0021 || got > end+0.0021 {
				a.violate("C27", "duration-wrong", "segment %s was closed normally: its header says %.3fs, its samples end at %.3fs", f.name, got, end)
			}
		}
		if haveVideo && !firstVideoSync {
			a.violate("C27", "starts-without-keyframe", "segment %s has video and does not begin with a random-access sample", f.name)
		}
		// consecutive segments of one recorder epoch are recognised as continuous
		if prev != nil && prev.init != nil && len(prev.parts) > 0 {
			pe := a.epochOf(prev, written)
			ce := a.epochOf(f, written)
			// (a file the recorder created twice holds the later of two segments: its
			// neighbours are not consecutive any more; that is reported as segment-overwritten)
			// "one stream" = one recorder instance: a write error (maximum part size) or a jump of
			// absolute time makes the server start a new instance, whose segments are a new stream
			// the instant a segment is labelled with is the absolute time of its oldest sample
			// (the recorder may start a segment up to one second before the sample it writes first)
			mislabelled := false
			if off, ok := a.labelOff(f, written); ok && (off > 1100*time.Millisecond || off < -1100*time.Millisecond) {
				mislabelled = true
				a.violate("C27", "segment-start-time-wrong", "segment %s is labelled with an instant %s away from the absolute time its oldest sample was published with: the recorder started it from a pending sample of another track whose absolute time had jumped, and which it had not examined yet (it restarts when it does)", f.name, off)
			}
			if pe >= 0 && pe == ce && a.h.segInst[prev.name] == a.h.segInst[f.name] && !a.h.twice[prev.name] && !a.h.twice[f.name] && !mislabelled {
				ok := a.realConcatenable(prev, f)
				if !ok {
					a.violate("C27", "not-continuous", "segments %s and %s were recorded back to back from one stream but are not recognised as continuous", prev.name, f.name)
				}
			}
		}
		prev = f
	}
}

// labelOff returns the distance between the instant a segment is labelled with and the
// absolute time of the oldest sample of its first part.
func (a *w3Analysis) labelOff(f *w3File, written map[int64]*w3Written) (time.Duration, bool) {
	if f.init == nil || f.init.mtxi == nil || len(f.parts) == 0 {
		return 0, false
	}
	var oldest time.Time
	for _, s := range f.parts[0].samples {
		if w := written[s.id]; w != nil && (oldest.IsZero() || w.NTP.Before(oldest)) {
			oldest = w.NTP
		}
	}
	if oldest.IsZero() {
		return 0, false
	}
	return time.Unix(0, f.init.mtxi.ntp).Sub(oldest), true
}

func (a *w3Analysis) epochOf(f *w3File, written map[int64]*w3Written) int {
	e := -1
	for _, p := range f.parts {
		for _, s := range p.samples {
			if w := written[s.id]; w != nil {
				if e >= 0 && w.Epoch != e {
					return -2 // spans two epochs
				}
				e = w.Epoch
			}
		}
	}
	return e
}

// realConcatenable asks the server's own predicate about two segment files.
func (a *w3Analysis) realConcatenable(p, c *w3File) bool {
	pi, _, err1 := segmentFMP4ReadHeader(bytes.NewReader(p.data))
	ci, _, err2 := segmentFMP4ReadHeader(bytes.NewReader(c.data))
	if err1 != nil || err2 != nil {
		return false
	}
	var pa, ca struct{ start, end time.Time }
	if p.init.mtxi == nil || c.init.mtxi == nil {
		return false
	}
	pa.start = time.Unix(0, p.init.mtxi.ntp)
	ca.start = time.Unix(0, c.init.mtxi.ntp)
	pa.end = pa.start.Add(time.Duration(float64(p.init.mvhdDur) / float64(p.init.mvhdScale) * float64(time.Second)))
	// the independent expectation: the next segment starts where the previous one ends, within one sample
	gap := ca.start.Sub(pa.end)
	tol := time.Duration(a.h.b.FrameMs+a.h.b.AudioMs) * time.Millisecond
	// (only a hole is flagged: when one track reaches the recorder later than the other, the next
	// segment begins with the late track's pending samples and overlaps the end of the previous one;
	// the statement does not exclude that, and what it costs /get is C29's known finding)
	if gap > tol {
		a.violate("C27", "gap-between-segments", "segment %s starts %s after the end of %s (more than one sample)", c.name, gap, p.name)
	}
	return segmentFMP4CanBeConcatenated(pi, pa.end, ci, ca.start)
}

// ---- crash states

func (a *w3Analysis) expectedIDs(files []*w3File, i int, mod []byte) (map[int64]bool, bool) {
	exp := map[int64]bool{}
	for k := 0; k < i; k++ {
		for _, p := range files[k].parts {
			for _, s := range p.samples {
				exp[s.id] = true
			}
		}
	}
	headerOK := false
	if mod != nil {
		in, parts, _, _ := w3ParseFile(mod)
		headerOK = in != nil
		for _, p := range parts {
			for _, s := range p.samples {
				exp[s.id] = true
			}
		}
	}
	return exp, headerOK
}

func (a *w3Analysis) crashStates(files []*w3File, written map[int64]*w3Written, checkServed bool) {
	b := a.h.b
	rng := rand.New(rand.NewSource(b.CrashSeed))
	exhaustiveFile := rng.Intn(len(files))
	for i, f := range files {
		if f.init == nil {
			continue
		}
		// candidate offsets: box boundaries +-1, header interior, random
		offs := map[int]bool{0: true, 1: true}
		for _, bd := range f.bounds {
			for _, d := range []int{-1, 0, 1, 8, 9} {
				if o := bd + d; o >= 0 && o <= len(f.data) {
					offs[o] = true
				}
			}
		}
		if b.Exhaustive && i == exhaustiveFile {
			// every offset of one file (a window of 12000 bytes when the file is longer)
			lo, hi := 0, len(f.data)
			if hi > 12000 {
				lo = rng.Intn(hi - 12000)
				hi = lo + 12000
			}
			for o := lo; o <= hi; o++ {
				offs[o] = true
			}
		} else {
			for n := 0; n < b.CrashPerFile; n++ {
				offs[rng.Intn(len(f.data)+1)] = true
			}
			// inside the header (mvhd and around)
			for n := 0; n < 6; n++ {
				offs[rng.Intn(f.init.end+1)] = true
			}
		}
		list := make([]int, 0, len(offs))
		for o := range offs {
			list = append(list, o)
		}
		sort.Ints(list)
		// while a segment is being written its header says duration 0: the duration is patched in
		// place when the segment is closed, after the last part
		unp := append([]byte(nil), f.data...)
		if off := f.init.mvhdDurOff; off > 0 && off+4 <= len(unp) {
			copy(unp[off:off+4], []byte{0, 0, 0, 0})
		}
		for _, j := range list {
			// truncated tail
			a.oneState(files, i, unp[:j], fmt.Sprintf("%s truncated at %d/%d", f.name, j, len(f.data)), checkServed)
			// zero-filled tail up to the end of the write that was in progress
			nb := len(f.data)
			for _, bd := range f.bounds {
				if bd > j {
					nb = bd
					break
				}
			}
			if nb > j {
				mod := make([]byte, nb)
				copy(mod, unp[:j])
				a.oneState(files, i, mod, fmt.Sprintf("%s written up to %d, zero-filled up to %d", f.name, j, nb), checkServed)
			}
			if simrt.Aborted() || len(a.violations) > 3 {
				return
			}
		}
		// torn in-place duration patch of the closed segment
		off := f.init.mvhdDurOff
		if off+4 <= len(f.data) {
			orig := make([]byte, 4)
			copy(orig, f.data[off:off+4])
			for k := 0; k < 4; k++ {
				mod := append([]byte(nil), f.data...)
				// first k bytes of the new duration applied over an unpatched (zero) field
				for x := 0; x < 4; x++ {
					if x >= k {
						mod[off+x] = 0
					}
				}
				a.oneState(files, i, mod, fmt.Sprintf("%s complete, duration patch torn after %d bytes", f.name, k), checkServed)
			}
		}
	}
}

// w3Replay applies the first k writes of a journal completely and the next one for j bytes.
// zero=true: the unwritten rest of that write reads as zeros where it extends the file.
func w3Replay(ops []w3JOp, k, j int, zero bool) []byte {
	var buf []byte
	put := func(off int64, data []byte, fill int) {
		end := int(off) + len(data)
		if fill > 0 {
			end = int(off) + fill
		}
		if end > len(buf) {
			buf = append(buf, make([]byte, end-len(buf))...)
		}
		copy(buf[off:], data)
	}
	for x := 0; x < k && x < len(ops); x++ {
		put(ops[x].off, ops[x].data, 0)
	}
	if k < len(ops) && j > 0 {
		op := ops[k]
		if j > len(op.data) {
			j = len(op.data)
		}
		fill := 0
		if zero && int(op.off)+len(op.data) > len(buf) {
			fill = len(op.data)
		}
		put(op.off, op.data[:j], fill)
	}
	return buf
}

// journalStates enumerates crash states from the write journal. The prefix enumeration of
// crashStates is complete for a recorder that only appends (plus the duration patch); as soon
// as the journal of a file holds other writes inside data already written (a part marshalled
// in place with seek-backs, say), a crash between two such writes leaves a state that no
// prefix of the final file shows.
func (a *w3Analysis) journalStates(files []*w3File, checkServed bool) {
	rng := rand.New(rand.NewSource(a.h.b.CrashSeed ^ 0x2545f491))
	for i, f := range files {
		ops := a.h.journal[f.name]
		if len(ops) == 0 {
			continue
		}
		if full := w3Replay(ops, len(ops), 0, false); !bytes.Equal(full, f.data) {
			a.violate("!", "infra", "the write journal of %s (%d writes) does not reproduce the file (%d vs %d bytes)", f.name, len(ops), len(full), len(f.data))
			return
		}
		// writes that land inside data already written
		size := int64(0)
		var inPlace []int
		for k, op := range ops {
			isDurationPatch := f.init != nil && k == len(ops)-1 && len(op.data) == 4 && int(op.off) == f.init.mvhdDurOff
			if op.off < size && !isDurationPatch {
				inPlace = append(inPlace, k)
			}
			if e := op.off + int64(len(op.data)); e > size {
				size = e
			}
		}
		a.journalWrites += len(ops)
		a.journalInPlace += len(inPlace)
		if len(inPlace) == 0 {
			continue
		}
		chosen := map[int]bool{}
		for n := 0; n < 48 && n < 4*len(inPlace); n++ {
			k := inPlace[rng.Intn(len(inPlace))]
			for _, d := range []int{-1, 0, 1} {
				if k+d >= 0 && k+d <= len(ops) {
					chosen[k+d] = true
				}
			}
		}
		ks := make([]int, 0, len(chosen))
		for k := range chosen {
			ks = append(ks, k)
		}
		sort.Ints(ks)
		for _, k := range ks {
			cuts := []int{0}
			if k < len(ops) {
				if n := len(ops[k].data); n > 1 {
					cuts = append(cuts, 1+rng.Intn(n-1))
				}
			}
			for _, j := range cuts {
				for _, zero := range []bool{false, true} {
					if zero && j == 0 {
						continue
					}
					mod := w3Replay(ops, k, j, zero)
					a.oneState(files, i, mod, fmt.Sprintf("%s after %d of its %d writes and %d bytes of the next (zero-filled rest: %v)", f.name, k, len(ops), j, zero), checkServed)
					if simrt.Aborted() || len(a.violations) > 3 {
						return
					}
				}
			}
		}
	}
}

func (a *w3Analysis) oneState(files []*w3File, i int, mod []byte, what string, checkServed bool) {
	a.states++
	root := a.materialize(files, i, mod)
	defer os.RemoveAll(root)
	exp, headerOK := a.expectedIDs(files, i, mod)
	_ = headerOK
	if checkServed {
		got, failure := a.served(root)
		if failure != "" {
			if strings.Contains(failure, "panicked") {
				a.violate("C27", "playback-crashes-on-crash-state", "crash state [%s]: %s", what, failure)
			} else if len(exp) > 0 {
				a.listFailTorn++
				a.violate("C27", "complete-parts-not-served", "crash state [%s]: %d samples sit in complete parts on disk but playback fails: %s", what, len(exp), failure)
			}
			return
		}
		missing := 0
		var ex int64 = -1
		for id := range exp {
			if !got[id] {
				missing++
				if ex < 0 || id < ex {
					ex = id
				}
			}
		}
		if missing > 0 {
			a.violate("C27", "complete-parts-not-served", "crash state [%s]: %d of %d samples of complete parts are not served by playback (e.g. sample %d) %s", what, missing, len(exp), ex, a.lastGetFailure)
		}
		return
	}
	a.probe(root, what)
}

// probe calls every playback entry point on a directory state: nothing may panic.
func (a *w3Analysis) probe(root, what string) {
	base := a.h.ntpBase
	qs := [][2]string{
		{"list", "path=cam"},
		{"list", "path=cam&start=" + url.QueryEscape(base.Add(2*time.Second).Format(time.RFC3339)) + "&end=" + url.QueryEscape(base.Add(4*time.Second).Format(time.RFC3339))},
		{"get", "path=cam&start=" + url.QueryEscape(base.Format(time.RFC3339Nano)) + "&duration=100&format=fmp4"},
		{"get", "path=cam&start=" + url.QueryEscape(base.Add(1500*time.Millisecond).Format(time.RFC3339Nano)) + "&duration=2.5&format=mp4"},
		{"get", "path=cam&start=" + url.QueryEscape(base.Add(-time.Hour).Format(time.RFC3339Nano)) + "&duration=7200"},
	}
	for _, q := range qs {
		_, _, pn := a.call(root, q[0], q[1])
		if pn != "" {
			a.violate("C28", "handler-panic", "directory state [%s]: /%s?%s panicked: %s", what, q[0], q[1], pn)
			return
		}
		if simrt.Aborted() {
			return
		}
	}
}

// ---- C28: corrupted and foreign files

func (a *w3Analysis) corruptions(files []*w3File) {
	b := a.h.b
	rng := rand.New(rand.NewSource(b.CrashSeed ^ 0x5bd1e995))
	for n := 0; n < b.Mutations; n++ {
		i := rng.Intn(len(files))
		f := files[i]
		if len(f.data) < 16 {
			continue
		}
		mod := append([]byte(nil), f.data...)
		what := ""
		// half of the time the segment is as a crash leaves it: duration not yet patched into the header
		unfinal := ""
		if rng.Intn(2) == 0 && f.init != nil && f.init.mvhdDurOff > 0 && f.init.mvhdDurOff+4 <= len(mod) {
			binary.BigEndian.PutUint32(mod[f.init.mvhdDurOff:], 0)
			unfinal = " (duration not yet written)"
		}
		kind := rng.Intn(12)
		if kind >= 8 {
			// structural damage of one box at any nesting depth: size field or type
			var all []w3Box
			var walk func(from, to, depth int)
			walk = func(from, to, depth int) {
				bs, _ := w3Boxes(f.data, from, to)
				for _, bx := range bs {
					all = append(all, bx)
					switch bx.typ {
					case "moov", "trak", "mdia", "minf", "stbl", "mvex", "moof", "traf", "dinf", "edts":
						if depth < 8 {
							walk(bx.body, bx.end, depth+1)
						}
					}
				}
			}
			walk(0, len(f.data), 0)
			if len(all) == 0 {
				continue
			}
			// prefer the boxes of the parts (the last part most of all)
			bx := all[rng.Intn(len(all))]
			if rng.Intn(2) == 0 {
				for tries := 0; tries < 8; tries++ {
					c := all[len(all)-1-rng.Intn(min(len(all), 12))]
					if c.typ != "mdat" {
						bx = c
						break
					}
				}
			}
			switch kind {
			case 8, 9:
				v := []uint32{0, 1, 2, 4, 7, 8, 9, uint32(bx.end-bx.start) - 1, uint32(bx.end-bx.start) + 1, 0x7fffffff, 0xfffffff0, 0xffffffff}[rng.Intn(12)]
				binary.BigEndian.PutUint32(mod[bx.start:], v)
				what = fmt.Sprintf("%s%s with the size of box %s at %d set to %d", f.name, unfinal, bx.typ, bx.start, v)
			case 10:
				mod[bx.start+4+rng.Intn(4)] ^= 1 << uint(rng.Intn(3))
				what = fmt.Sprintf("%s%s with the type of box %s at %d damaged", f.name, unfinal, bx.typ, bx.start)
			default:
				// the box emptied: header kept, payload zero-filled
				for x := bx.body; x < bx.end && x < len(mod); x++ {
					mod[x] = 0
				}
				what = fmt.Sprintf("%s%s with the payload of box %s at %d zero-filled", f.name, unfinal, bx.typ, bx.start)
			}
			kind = -1
		}
		switch kind {
		case -1:
		case 0: // flip a bit in a box header
			bd := 0
			if len(f.bounds) > 0 {
				bd = f.bounds[rng.Intn(len(f.bounds))]
			}
			o := bd + rng.Intn(8)
			if o >= len(mod) {
				o = rng.Intn(8)
			}
			mod[o] ^= 1 << uint(rng.Intn(8))
			what = fmt.Sprintf("%s with a bit flipped at %d", f.name, o)
		case 1: // a box size set to a small or huge value
			o := 0
			if len(f.bounds) > 0 && rng.Intn(2) == 0 {
				o = f.bounds[rng.Intn(len(f.bounds))]
			}
			if o+4 > len(mod) {
				o = 0
			}
			binary.BigEndian.PutUint32(mod[o:], []uint32{0, 1, 7, 8, 9, 0x7fffffff, 0xffffffff}[rng.Intn(7)])
			what = fmt.Sprintf("%s with the box size at %d overwritten", f.name, o)
		case 2: // an inner box size (moov children, traf children)
			o := 8 + rng.Intn(len(mod)-12)
			binary.BigEndian.PutUint32(mod[o:], []uint32{0, 1, 7, 0xffffffff, 0x10000000}[rng.Intn(5)])
			what = fmt.Sprintf("%s with 4 bytes at %d overwritten", f.name, o)
		case 3: // a zero page
			o := rng.Intn(len(mod))
			e := o + 1 + rng.Intn(512)
			if e > len(mod) {
				e = len(mod)
			}
			for x := o; x < e; x++ {
				mod[x] = 0
			}
			what = fmt.Sprintf("%s with [%d,%d) zeroed", f.name, o, e)
		case 4: // empty file
			mod = []byte{}
			what = f.name + " empty"
		case 5: // random bytes
			o := rng.Intn(len(mod))
			e := o + 1 + rng.Intn(64)
			if e > len(mod) {
				e = len(mod)
			}
			rng.Read(mod[o:e])
			what = fmt.Sprintf("%s with [%d,%d) randomised", f.name, o, e)
		case 6: // the whole header zero-filled but the file type box
			// keep ftyp and the moov box header, zero the payload of moov
			top, _ := w3Boxes(f.data, 0, len(f.data))
			if len(top) > 0 {
				for x := top[0].end + 8; x < f.init.end && x < len(mod); x++ {
					mod[x] = 0
				}
			}
			what = f.name + " with a zero-filled header payload"
		default: // only the first bytes of the header, then zeros up to the header length
			k := 16 + rng.Intn(f.init.end)
			if k > f.init.end {
				k = f.init.end
			}
			mod = make([]byte, f.init.end)
			copy(mod, f.data[:k])
			what = fmt.Sprintf("%s header written up to %d and zero-filled", f.name, k)
		}
		if kind >= 0 {
			what += unfinal
		}
		a.mutations++
		root := a.materialize(files, len(files), nil)
		os.WriteFile(filepath.Join(root, "cam", f.name), mod, 0o644)
		// foreign files with look-alike names, a directory in place of a file
		os.WriteFile(filepath.Join(root, "cam", "notes.txt"), []byte("hello"), 0o644)
		os.WriteFile(filepath.Join(root, "cam", "2024-03-01_12-00-05-000000.mp4.bak"), mod, 0o644)
		os.Mkdir(filepath.Join(root, "cam", "2024-03-01_12-00-06-000000.mp4"), 0o755)
		a.probe(root, what)
		os.RemoveAll(root)
		if simrt.Aborted() || len(a.violations) > 3 {
			return
		}
	}
}

