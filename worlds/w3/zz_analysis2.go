package playback

// W3 oracles, second part: C29 (playback list/get against an independent
// reader of the on-disk segments) and C30 (retention).

import (
	"encoding/json"
	"fmt"
	"math/rand"
	"net/url"
	"os"
	"path/filepath"
	"regexp"
	"strings"
	"time"

	"github.com/bluenviron/mediamtx/internal/conf"
	"github.com/bluenviron/mediamtx/internal/recordcleaner"
	"github.com/bluenviron/mediamtx/internal/recordstore"
	"github.com/bluenviron/mediamtx/internal/zzsim/simrt"
)

// ---------------------------------------------------------------------------
// C29

type w3DiskSample struct {
	id    int64
	track int
	video bool
	sync  bool
	t     time.Time // absolute time of the sample
	scale uint32
	seg   int // index of the segment inside its run
}

type w3Chain struct {
	start, end time.Time
	segStarts  []time.Time
	samples    []w3DiskSample // in recorded (file) order
	maxDur     time.Duration
}

// chains groups the on-disk segments into runs of consecutive segments of one stream.
func (a *w3Analysis) chains(files []*w3File) []*w3Chain {
	var out []*w3Chain
	var prev *w3File
	for _, f := range files {
		if f.init == nil || f.init.mtxi == nil || len(f.parts) == 0 {
			prev = nil
			continue
		}
		start := time.Unix(0, f.init.mtxi.ntp)
		var end time.Time
		var ss []w3DiskSample
		var maxDur time.Duration
		for _, p := range f.parts {
			for _, s := range p.samples {
				tr := f.init.track(s.track)
				off := time.Duration(float64(s.dts) / float64(tr.timescale) * float64(time.Second))
				d := time.Duration(float64(s.dur) / float64(tr.timescale) * float64(time.Second))
				if d > maxDur {
					maxDur = d
				}
				ss = append(ss, w3DiskSample{id: s.id, track: s.track, video: tr.video, sync: s.sync, t: start.Add(off), scale: tr.timescale})
				if e := start.Add(off + d); e.After(end) {
					end = e
				}
			}
		}
		cont := prev != nil && prev.init.mtxi.stream == f.init.mtxi.stream && prev.init.mtxi.number+1 == f.init.mtxi.number
		if cont {
			c := out[len(out)-1]
			c.end = end
			for i := range ss {
				ss[i].seg = len(c.segStarts)
			}
			c.segStarts = append(c.segStarts, start)
			c.samples = append(c.samples, ss...)
			if maxDur > c.maxDur {
				c.maxDur = maxDur
			}
		} else {
			out = append(out, &w3Chain{start: start, end: end, segStarts: []time.Time{start}, samples: ss, maxDur: maxDur})
		}
		prev = f
	}
	return out
}

func (a *w3Analysis) queriesVsDisk(files []*w3File, written map[int64]*w3Written) {
	root := a.h.dir
	chains := a.chains(files)
	if len(chains) == 0 {
		return
	}
	// chains must not overlap in absolute time for the span clauses to be meaningful
	for i := 1; i < len(chains); i++ {
		if chains[i].start.Before(chains[i-1].end) {
			return
		}
	}
	// ---- list without a window
	st, body, pn := a.call(root, "list", "path=cam")
	if pn != "" || st != 200 {
		a.violate("C29", "list-fails", "list of a normally closed recording answered %d %s %s", st, strings.TrimSpace(string(body)), pn)
		return
	}
	var entries []w3ListEntry
	if err := json.Unmarshal(body, &entries); err != nil {
		a.violate("C29", "list-fails", "list answered invalid JSON: %v", err)
		return
	}
	// closed segments carry their true duration (millisecond resolution, one per segment of the run)
	tol := func(c *w3Chain) time.Duration { return time.Duration(2+len(c.segStarts)) * time.Millisecond }
	if len(entries) != len(chains) {
		a.violate("C29", "list-spans", "the recording consists of %d runs of consecutive segments, list returned %d spans: %s", len(chains), len(entries), string(body))
		return
	}
	for i, e := range entries {
		c := chains[i]
		if d := e.Start.Sub(c.start); d < -time.Millisecond || d > time.Millisecond {
			a.violate("C29", "list-spans", "span %d starts at %s, the media on disk starts at %s", i, e.Start.Format(time.RFC3339Nano), c.start.Format(time.RFC3339Nano))
		}
		end := e.Start.Add(time.Duration(e.Duration * float64(time.Second)))
		if d := end.Sub(c.end); d < -tol(c) || d > tol(c) {
			a.violate("C29", "list-spans", "span %d ends at %s, the media on disk ends at %s (tolerance %s)", i, end.Format(time.RFC3339Nano), c.end.Format(time.RFC3339Nano), tol(c))
		}
		if i > 0 {
			pe := entries[i-1].Start.Add(time.Duration(entries[i-1].Duration * float64(time.Second)))
			if e.Start.Before(pe.Add(-time.Millisecond)) {
				a.violate("C29", "list-order", "span %d starts at %s before the end of span %d (%s)", i, e.Start.Format(time.RFC3339Nano), i-1, pe.Format(time.RFC3339Nano))
			}
		}
	}
	// ---- what a player does: fetch every listed span exactly as listed; then windows that start
	// exactly at a segment boundary
	for _, e := range entries {
		if simrt.Aborted() || len(a.violations) > 2 {
			return
		}
		a.getWindow(root, chains, e.Start, time.Duration(e.Duration*float64(time.Second)))
	}
	for _, c := range chains {
		for _, s := range c.segStarts {
			if simrt.Aborted() || len(a.violations) > 2 {
				return
			}
			a.getWindow(root, chains, s, 700*time.Millisecond)
		}
	}
	base := chains[0].start
	for _, w := range a.h.b.Windows {
		if simrt.Aborted() || len(a.violations) > 2 {
			return
		}
		qs := base.Add(time.Duration(w.StartMs) * time.Millisecond).Truncate(time.Second)
		qe := qs.Add(time.Duration(w.DurMs)*time.Millisecond + time.Second).Truncate(time.Second)
		a.listWindow(root, chains, qs, qe)
		T := base.Add(time.Duration(w.StartMs) * time.Millisecond)
		a.getWindow(root, chains, T, time.Duration(w.DurMs)*time.Millisecond)
	}
}

// listWindow checks a list request clipped to [qs, qe].
func (a *w3Analysis) listWindow(root string, chains []*w3Chain, qs, qe time.Time) {
	q := url.Values{}
	q.Set("path", "cam")
	q.Set("start", qs.Format(time.RFC3339))
	q.Set("end", qe.Format(time.RFC3339))
	st, body, pn := a.call(root, "list", q.Encode())
	if pn != "" {
		a.violate("C29", "list-fails", "list?%s panicked: %s", q.Encode(), pn)
		return
	}
	type span struct{ s, e time.Time }
	var exp []span
	var tolr time.Duration
	for _, c := range chains {
		s, e := c.start, c.end
		if s.Before(qs) {
			s = qs
		}
		if e.After(qe) {
			e = qe
		}
		if t := time.Duration(len(c.segStarts)) * time.Millisecond; t > tolr {
			tolr = t
		}
		// spans that only touch the window within a few milliseconds are optional
		if e.Sub(s) > time.Duration(4+len(c.segStarts))*time.Millisecond {
			exp = append(exp, span{s, e})
		}
	}
	tolr += 3 * time.Millisecond
	// a returned span as short as the clips that are optional above may be one of them
	// (media that reaches a few milliseconds into the window: it is on disk, returning it is right)
	short := tolr + time.Millisecond
	var got []span
	switch st {
	case 200:
		var entries []w3ListEntry
		if err := json.Unmarshal(body, &entries); err != nil {
			a.violate("C29", "list-fails", "list?%s answered invalid JSON", q.Encode())
			return
		}
		for _, e := range entries {
			got = append(got, span{e.Start, e.Start.Add(time.Duration(e.Duration * float64(time.Second)))})
		}
	case 404:
	default:
		a.violate("C29", "list-fails", "list?%s answered %d: %s", q.Encode(), st, strings.TrimSpace(string(body)))
		return
	}
	// every expected span is covered by exactly one returned span with matching ends;
	// returned spans shorter than the tolerance are ignored
	gi := 0
	for _, e := range exp {
		for gi < len(got) && got[gi].e.Sub(got[gi].s) <= short && got[gi].e.Before(e.s.Add(tolr)) {
			gi++
		}
		if gi >= len(got) {
			a.violate("C29", "list-window", "list?%s: the media on disk covers [%s, %s] inside the window but no span is returned for it: %s",
				q.Encode(), e.s.Format(time.RFC3339Nano), e.e.Format(time.RFC3339Nano), strings.TrimSpace(string(body)))
			return
		}
		g := got[gi]
		if d := g.s.Sub(e.s); d < -tolr || d > tolr {
			a.violate("C29", "list-window", "list?%s: span starts at %s, the media clipped to the window starts at %s", q.Encode(), g.s.Format(time.RFC3339Nano), e.s.Format(time.RFC3339Nano))
			return
		}
		if d := g.e.Sub(e.e); d < -tolr || d > tolr {
			a.violate("C29", "list-window", "list?%s: span ends at %s, the media clipped to the window ends at %s", q.Encode(), g.e.Format(time.RFC3339Nano), e.e.Format(time.RFC3339Nano))
			return
		}
		gi++
	}
	for ; gi < len(got); gi++ {
		if got[gi].e.Sub(got[gi].s) > short {
			a.violate("C29", "list-window", "list?%s returned the span [%s, %s] where the disk holds no media inside the window", q.Encode(), got[gi].s.Format(time.RFC3339Nano), got[gi].e.Format(time.RFC3339Nano))
			return
		}
	}
}

// getWindow checks a get request that starts inside a run of consecutive segments.
func (a *w3Analysis) getWindow(root string, chains []*w3Chain, T time.Time, D time.Duration) {
	var c *w3Chain
	for _, x := range chains {
		if !T.Before(x.start) && T.Before(x.end) {
			c = x
		}
	}
	q := url.Values{}
	q.Set("path", "cam")
	q.Set("start", T.Format(time.RFC3339Nano))
	q.Set("duration", fmt.Sprintf("%.6f", D.Seconds()))
	q.Set("format", "fmp4")
	st, body, pn := a.call(root, "get", q.Encode())
	if pn != "" {
		a.violate("C29", "get-fails", "get?%s panicked: %s", q.Encode(), pn)
		return
	}
	inGap := false
	if c == nil {
		// the window starts in a gap (or before everything): the samples it covers are those of
		// the next run of segments, as for a window that starts before the first recording
		for _, x := range chains {
			if x.start.After(T) && x.start.Before(T.Add(D)) && (c == nil || x.start.Before(c.start)) {
				c = x
			}
		}
		if c == nil {
			return // nothing recorded inside the window: only a well-formed answer is required
		}
		inGap = true
	}
	// expected per track: pre-roll since the last random-access sample before T, then the samples in [T, T+D)
	type key struct{ track int }
	expVisible := map[int][]w3DiskSample{}
	expPre := map[int][]w3DiskSample{}
	tick := map[int]time.Duration{}
	for _, s := range c.samples {
		tick[s.track] = time.Second/time.Duration(s.scale) + time.Microsecond
	}
	for _, s := range c.samples {
		tk := tick[s.track]
		switch {
		case s.t.Before(T.Add(-tk)):
			if s.sync {
				expPre[s.track] = expPre[s.track][:0]
			}
			expPre[s.track] = append(expPre[s.track], s)
		case s.t.Before(T.Add(tk)) || !s.t.Before(T.Add(D).Add(-tk)):
			// within one tick of a window edge: may be on either side
		default:
			expVisible[s.track] = append(expVisible[s.track], s)
		}
	}
	nvis := 0
	for _, v := range expVisible {
		nvis += len(v)
	}
	// the non-fragmented output must at least be produced whenever the window holds media
	// (its samples are not compared: the independent reader only reads fragmented files)
	if nvis > 0 && len(a.violations) == 0 {
		q2 := url.Values{}
		q2.Set("path", "cam")
		q2.Set("start", T.Format(time.RFC3339Nano))
		q2.Set("duration", fmt.Sprintf("%.6f", D.Seconds()))
		q2.Set("format", "mp4")
		st2, body2, pn2 := a.call(root, "get", q2.Encode())
		if pn2 != "" {
			a.violate("C29", "get-fails", "get?%s panicked: %s", q2.Encode(), pn2)
			return
		}
		if st2 != 200 && st == 200 {
			a.violate("C29", "get-missing-mp4", "get?%s answered %d (%s) although %d recorded samples fall inside the window and the same request with format=fmp4 is answered with media", q2.Encode(), st2, strings.TrimSpace(string(body2)), nvis)
			return
		}
	}
	if st != 200 {
		if nvis > 0 {
			for _, v := range expVisible {
				if len(v) > 0 {
					what := fmt.Sprintf("the request answered %d (%s) although %d recorded samples fall inside the window", st, strings.TrimSpace(string(body)), nvis)
					if inGap {
						a.violate("C29", "get-missing-after-gap", "get?%s: the window starts %s before a recording (in a gap after an earlier one, or before everything) and covers sample %d of track %d recorded at %s: %s",
							q.Encode(), c.start.Sub(T), v[0].id, v[0].track, v[0].t.Format(time.RFC3339Nano), what)
					} else {
						a.missing(q.Encode(), c, T, v[0], what)
					}
					break
				}
			}
		}
		return
	}
	in, parts, _, problems := w3ParseFile(body)
	if in == nil || len(problems) > 0 {
		a.violate("C29", "get-malformed", "get?%s returned a file that is not a header followed by complete parts: %v", q.Encode(), problems)
		return
	}
	got := map[int][]w3Sample{}
	for _, p := range parts {
		for _, s := range p.samples {
			got[s.track] = append(got[s.track], s)
		}
	}
	disk := map[int64]w3DiskSample{}
	for _, s := range c.samples {
		disk[s.id] = s
	}
	for track, gs := range got {
		tr := in.track(track)
		// recorded order, no sample twice, only recorded samples
		lastIdx := -1
		pos := map[int64]int{}
		for i, s := range c.samples {
			if s.track == track {
				pos[s.id] = i
			}
		}
		for _, s := range gs {
			p, ok := pos[s.id]
			if !ok {
				a.violate("C29", "get-foreign-sample", "get?%s returned sample %d on track %d which is not in this run of segments on disk", q.Encode(), s.id, track)
				return
			}
			if p <= lastIdx {
				a.violate("C29", "get-order", "get?%s returned sample %d out of recorded order on track %d", q.Encode(), s.id, track)
				return
			}
			lastIdx = p
		}
		// visible samples: present, with timestamps relative to the requested start
		want := expVisible[track]
		gotByID := map[int64]w3Sample{}
		for _, s := range gs {
			gotByID[s.id] = s
		}
		for _, w := range want {
			g, ok := gotByID[w.id]
			if !ok {
				a.missing(q.Encode(), c, T, w, "it lies inside the window and is not returned")
				return
			}
			rel := time.Duration(float64(g.dts) / float64(tr.timescale) * float64(time.Second))
			if d := rel - w.t.Sub(T); d < -2*tick[track] || d > 2*tick[track] {
				a.violate("C29", "get-timestamp", "get?%s: sample %d of track %d was recorded %s after the requested start but is returned at %s", q.Encode(), w.id, track, w.t.Sub(T), rel)
				return
			}
		}
		// nothing outside the window except the pre-roll (edge samples within one tick are tolerated)
		allowed := map[int64]bool{}
		for _, w := range want {
			allowed[w.id] = true
		}
		for _, w := range expPre[track] {
			allowed[w.id] = true
		}
		for _, s := range gs {
			if allowed[s.id] {
				continue
			}
			d := disk[s.id]
			tk := tick[track]
			nearStart := !d.t.Before(T.Add(-tk)) && d.t.Before(T.Add(tk))
			nearEnd := !d.t.Before(T.Add(D).Add(-tk)) && d.t.Before(T.Add(D).Add(tk))
			// a sample within one tick before the start may also open the pre-roll
			if nearStart || nearEnd {
				continue
			}
			a.violate("C29", "get-extra", "get?%s returned sample %d of track %d recorded at %s, outside the window [%s, +%s) and not part of the pre-roll since the last random-access sample", q.Encode(), s.id, track, d.t.Format(time.RFC3339Nano), T.Format(time.RFC3339Nano), D)
			return
		}
	}
	for track, want := range expVisible {
		if len(want) > 0 && len(got[track]) == 0 {
			a.missing(q.Encode(), c, T, want[0], fmt.Sprintf("nothing is returned for track %d although %d recorded samples fall inside the window", track, len(want)))
			return
		}
	}
}

// missing reports a recorded sample of the window that get does not return.
// Consecutive segments overlap in time (a segment starts at the oldest pending
// sample of any track); when the window starts inside such an overlap the
// server begins with the later segment and the samples of the earlier one are
// lost: that case has its own clause.
func (a *w3Analysis) missing(query string, c *w3Chain, T time.Time, w w3DiskSample, what string) {
	clause := "get-missing"
	if w.seg+1 < len(c.segStarts) && !c.segStarts[w.seg+1].After(T) {
		clause = "get-missing-in-segment-overlap"
		what += fmt.Sprintf("; the window starts at %s, inside the overlap of segment %d (which holds the sample) and segment %d (which starts at %s, and from which the server starts reading)",
			T.Format(time.RFC3339Nano), w.seg, w.seg+1, c.segStarts[w.seg+1].Format(time.RFC3339Nano))
	}
	a.violate("C29", clause, "get?%s: sample %d of track %d recorded at %s: %s", query, w.id, w.track, w.t.Format(time.RFC3339Nano), what)
}

// ---------------------------------------------------------------------------
// C30

type w3Planted struct {
	path    string // file path
	segment bool   // a name the recorder could have produced
	owner   string // path name it belongs to ("" = foreign)
	start   time.Time
	kind    string
}

func (a *w3Analysis) retention(files []*w3File) {
	b := a.h.b
	rng := rand.New(rand.NewSource(b.CrashSeed ^ 0x7e7e))
	root := a.h.dir
	format := a.h.recordPathFormat(root)
	// name layouts whose lexical order is not the order of the start instants (day first: the
	// planted ages cross a month boundary; hour first): nothing in the property ties the order of
	// a directory listing to time. The segments recorded in this run keep the default layout and
	// are then files of another layout, which must stay. Own generator: the draws below are unchanged.
	layout := rand.New(rand.NewSource(b.CrashSeed ^ 0x5151)).Intn(4)
	switch layout {
	case 2:
		format = filepath.Join(root, "%path", "%d-%m-%Y_%H-%M-%S-%f")
	case 3:
		format = filepath.Join(root, "%path", "%H-%M-%S-%f_%Y-%m-%d")
	}
	now0 := time.Now()
	dur := func() time.Duration {
		return []time.Duration{10 * time.Second, time.Minute, time.Hour, 24 * time.Hour}[rng.Intn(4)]
	}
	dCam, dRe := dur(), dur()
	mk := func(name string, d time.Duration) *conf.Path {
		p := &conf.Path{Name: name, RecordPath: format, RecordFormat: conf.RecordFormatFMP4, RecordDeleteAfter: conf.Duration(d)}
		if strings.HasPrefix(name, "~") {
			p.Regexp = regexp.MustCompile(name[1:])
		}
		return p
	}
	confs := map[string]*conf.Path{
		"cam":            mk("cam", dCam),
		"cam2":           mk("cam2", 0),
		"cam/sub":        mk("cam/sub", dCam),
		"~^r([0-9]+)$": mk("~^r([0-9]+)$", dRe),
	}
	delOf := map[string]time.Duration{"cam": dCam, "cam2": 0, "cam/sub": dCam, "r1": dRe, "r22": dRe, "other": -1}
	// static entries that override the regular expression for one name: keep forever, or another delay
	confs["r5"] = mk("r5", 0)
	delOf["r5"] = 0
	dR7 := dur()
	confs["r7"] = mk("r7", dR7)
	delOf["r7"] = dR7
	dAll := time.Duration(0)
	if rng.Intn(2) == 0 {
		// a catch-all entry: unconfigured names get its delay, names with their own entry keep theirs
		dAll = dur()
		all := mk("all_others", dAll)
		all.Regexp = regexp.MustCompile("^.*$")
		confs["all_others"] = all
		delOf["other"] = dAll
	}
	payload := []byte("not a real segment")
	if len(files) > 0 {
		payload = files[0].data
	}
	var planted []w3Planted
	plant := func(owner string, start time.Time, suffix, kind string, segment bool) {
		fp := recordstore.Path{Start: start, Path: owner}.Encode(recordstore.PathAddExtension(format, conf.RecordFormatFMP4)) + suffix
		os.MkdirAll(filepath.Dir(fp), 0o755)
		os.WriteFile(fp, payload, 0o644)
		planted = append(planted, w3Planted{path: fp, segment: segment, owner: owner, start: start, kind: kind})
	}
	// the real segments recorded in this run belong to cam
	for _, f := range files {
		st := now0
		if f.init != nil && f.init.mtxi != nil {
			st = time.Unix(0, f.init.mtxi.ntp)
		}
		if layout >= 2 {
			planted = append(planted, w3Planted{path: filepath.Join(root, "cam", f.name), kind: "file named after another recordPath layout"})
			continue
		}
		planted = append(planted, w3Planted{path: filepath.Join(root, "cam", f.name), segment: true, owner: "cam", start: st.Truncate(time.Microsecond), kind: "recorded"})
	}
	// a path that sorts before all the others and holds fresh segments only: nothing of it expires,
	// which must not keep the cleaner from doing the other paths
	if rng.Intn(2) == 0 {
		confs["aaa"] = mk("aaa", dCam)
		delOf["aaa"] = dCam
		for _, age := range []time.Duration{dCam / 8, dCam / 4} {
			plant("aaa", now0.Add(-age).Truncate(time.Microsecond), "", "segment", true)
		}
	}
	for _, owner := range []string{"cam", "cam2", "cam/sub", "r1", "r22", "r5", "r7", "other"} {
		d := delOf[owner]
		if d <= 0 {
			d = dCam
		}
		for _, age := range []time.Duration{d / 2, d - 2*time.Second, d + 2*time.Second, 2 * d, d + time.Duration(rng.Intn(int(d)))} {
			if age < 0 {
				age = 0
			}
			st := now0.Add(-age).Truncate(time.Microsecond)
			plant(owner, st, "", "segment", true)
		}
	}
	old := now0.Add(-4 * (dCam + dRe)).Truncate(time.Microsecond)
	plant("cam", old.Add(time.Second), ".bak", "look-alike with a suffix", false)
	plant("cam", old.Add(2*time.Second), ".tmp", "look-alike with a suffix", false)
	plant("r1", old.Add(3*time.Second), "~", "look-alike with a suffix", false)
	os.WriteFile(filepath.Join(root, "cam", "notes.txt"), []byte("x"), 0o644)
	planted = append(planted, w3Planted{path: filepath.Join(root, "cam", "notes.txt"), kind: "foreign file"})
	os.WriteFile(filepath.Join(root, "README"), []byte("x"), 0o644)
	planted = append(planted, w3Planted{path: filepath.Join(root, "README"), kind: "foreign file"})

	cl := &recordcleaner.Cleaner{PathConfs: confs, Parent: w3Log{}}
	tStart := time.Now()
	cl.Initialize()
	interval := 30 * time.Minute
	for _, d := range []time.Duration{dCam, dRe, dR7, dAll} {
		if d > 0 && d/2 < interval {
			interval = d / 2
		}
	}
	passes := 1 + rng.Intn(4)
	time.Sleep(time.Duration(passes)*interval + time.Second)
	tLast := tStart.Add(time.Duration(passes) * interval)
	cl.Close()
	simrt.Rec("cleaner.done", "", "", int64(passes), int64(interval), 0)
	a.states = passes

	for _, p := range planted {
		_, err := os.Stat(p.path)
		exists := err == nil
		d := delOf[p.owner]
		expirable := p.segment && d > 0
		rel := strings.TrimPrefix(p.path, root+"/")
		switch {
		case !expirable:
			if !exists {
				what := p.kind
				if p.segment {
					what = fmt.Sprintf("segment of path %q, whose recordDeleteAfter is %v", p.owner, d)
					if d < 0 {
						what = fmt.Sprintf("segment of %q, a path without configuration", p.owner)
					}
				}
				a.violate("C30", "deleted-wrong-file", "the cleaner deleted %s (%s)", rel, what)
			}
		case p.start.After(tLast.Add(-d).Add(time.Millisecond)):
			if !exists {
				a.violate("C30", "deleted-too-early", "the cleaner deleted %s of path %q: it started %s before the last pass, recordDeleteAfter is %s", rel, p.owner, tLast.Sub(p.start), d)
			}
		case p.start.Before(tLast.Add(-d).Add(-time.Millisecond)):
			if exists {
				a.violate("C30", "expired-not-deleted", "segment %s of path %q started %s before the last pass (recordDeleteAfter %s) and still exists after %d passes", rel, p.owner, tLast.Sub(p.start), d, passes+1)
			}
		}
	}
}
