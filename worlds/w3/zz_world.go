package playback

// W3 "recworld": the real stream, fMP4 recorder, playback handlers and record
// cleaner on a real directory, under the simrt scheduler and simulated clock.
// A simulated publisher writes identifiable H.264 / LPCM samples; after the
// recording every crash state of the files (every write offset, truncated or
// zero-filled tails, torn in-place duration patch) and corrupted variants are
// handed to the real playback code and compared with an independent reader.

import (
	"encoding/binary"
	"encoding/json"
	"fmt"
	"io"
	"math/rand"
	"os"
	"path/filepath"
	"sort"
	"strings"
	"testing"
	"time"

	"github.com/bluenviron/gortsplib/v5/pkg/description"
	"github.com/bluenviron/gortsplib/v5/pkg/format"

	"github.com/bluenviron/mediamtx/internal/conf"
	"github.com/bluenviron/mediamtx/internal/logger"
	"github.com/bluenviron/mediamtx/internal/recorder"
	"github.com/bluenviron/mediamtx/internal/stream"
	"github.com/bluenviron/mediamtx/internal/unit"
	"github.com/bluenviron/mediamtx/internal/zzsim/simrt"
)

func simWorldMain(t *testing.T) { simrt.WorkerMain(t, &w3World{}) }

type w3Phase struct {
	Frames    int   `json:"frames"`
	PauseMs   int64 `json:"pause_ms,omitempty"`    // silence before the phase (clock and timestamps go on)
	NTPJumpMs int64 `json:"ntp_jump_ms,omitempty"` // absolute time jumps, timestamps do not
}

type w3Window struct {
	StartMs int64 `json:"start_ms"` // relative to the first absolute timestamp
	DurMs   int64 `json:"dur_ms"`
}

type w3Body struct {
	Video       bool       `json:"video"`
	Audio       bool       `json:"audio"`
	FrameMs     int64      `json:"frame_ms"`
	GOP         int        `json:"gop"`
	AudioMs     int64      `json:"audio_ms"`
	AudioLagMs  int64      `json:"audio_lag_ms,omitempty"` // audio units reach the stream that much later than video units of the same time
	VideoLagMs  int64      `json:"video_lag_ms,omitempty"` // or the video units that much later than the audio units
	// the timestamps of the audio units are that much after those of the video units (a
	// publisher whose second track starts a few milliseconds after its first key frame)
	AudioOffMs int64 `json:"audio_off_ms,omitempty"`
	// "" = LPCM 8 kHz; "mp3" = MPEG-1 layer III frames of 1152 samples at 44.1 kHz (90 kHz clock)
	AudioCodec  string     `json:"audio_codec,omitempty"`
	SegmentMs   int64      `json:"segment_ms"`
	PartMs      int64      `json:"part_ms"`
	MaxPartSize int        `json:"max_part_size"`
	Phases      []w3Phase  `json:"phases"`
	CrashSeed   int64      `json:"crash_seed"`
	CrashPerFile int       `json:"crash_per_file"`
	Exhaustive  bool       `json:"exhaustive,omitempty"`
	Mutations   int        `json:"mutations"`
	Windows     []w3Window `json:"windows,omitempty"`
	DeleteAfterS int64     `json:"delete_after_s,omitempty"`
	// C40 runs: every third group of pictures carries other in-band parameters (PPS)
	AltParams bool `json:"alt_params,omitempty"`
}

type w3World struct{}

func (w *w3World) Gen(rng *rand.Rand, property, tier string) (any, simrt.Sched) {
	b := &w3Body{
		Video:       rng.Intn(5) != 0,
		FrameMs:     []int64{40, 33, 100, 200}[rng.Intn(4)],
		GOP:         []int{1, 5, 10, 25}[rng.Intn(4)],
		AudioMs:     []int64{20, 100}[rng.Intn(2)],
		SegmentMs:   []int64{1000, 2000, 3000}[rng.Intn(3)],
		PartMs:      []int64{100, 200, 500}[rng.Intn(3)],
		MaxPartSize: []int{50 << 20, 50 << 20, 4000}[rng.Intn(3)],
		CrashSeed:   rng.Int63(),
	}
	b.Audio = !b.Video || rng.Intn(3) != 0
	if b.Video && b.Audio {
		b.AudioLagMs = []int64{0, 0, 30, 250, 700}[rng.Intn(5)]
		if b.AudioLagMs == 0 && rng.Intn(3) == 0 {
			b.VideoLagMs = []int64{30, 250}[rng.Intn(2)]
		}
		b.AudioOffMs = []int64{0, 0, 5, 13}[rng.Intn(4)]
	}
	if b.Audio && rng.Intn(4) == 0 {
		b.AudioCodec = "mp3"
		b.AudioMs = 26
	}
	nph := 1 + rng.Intn(3)
	for i := 0; i < nph; i++ {
		ph := w3Phase{Frames: 10 + rng.Intn(60)}
		if i > 0 {
			switch rng.Intn(3) {
			case 0:
				ph.PauseMs = []int64{500, 3000, 6000}[rng.Intn(3)]
			case 1:
				ph.NTPJumpMs = []int64{6000, -6000, 60000}[rng.Intn(3)]
			}
		}
		b.Phases = append(b.Phases, ph)
	}
	switch property {
	case "C27":
		b.CrashPerFile = 24
		if tier == "thorough" {
			b.CrashPerFile = 200
			b.Exhaustive = rng.Intn(20) == 0
		}
	case "C28":
		b.CrashPerFile = 8
		b.Mutations = 16
		if tier == "thorough" {
			b.CrashPerFile = 40
			b.Mutations = 64
		}
	case "C30":
		// short recordings: retention is about the directory tree
		b.Phases = b.Phases[:1]
		if b.Phases[0].Frames > 30 {
			b.Phases[0].Frames = 30
		}
	case "C29", "C40":
		// spans are compared in absolute time: keep the recorded timeline monotonic
		for i := range b.Phases {
			if b.Phases[i].NTPJumpMs < 0 {
				b.Phases[i].NTPJumpMs = -b.Phases[i].NTPJumpMs
			}
		}
		if property == "C40" {
			b.AltParams = rng.Intn(2) == 0
		}
		for i := 0; i < 20; i++ {
			b.Windows = append(b.Windows, w3Window{StartMs: int64(rng.Intn(12000)) - 1000, DurMs: []int64{0, 1, 40, 500, 1000, 2500, 10000}[rng.Intn(7)]})
		}
	}
	sched := simrt.DefaultSched(rng)
	sched.StallProb = 0
	sched.MaxSteps = 400000
	return b, sched
}

type w3Log struct{}

// w3Cur is the harness of the run in progress (one run at a time per process).
var w3Cur *w3Harness

func (w3Log) Log(level logger.Level, format string, args ...any) {
	// directory names differ between processes: keep them out of the event log
	msg := strings.ReplaceAll(fmt.Sprintf(format, args...), os.TempDir(), "<tmp>")
	if w3Cur != nil && strings.HasPrefix(msg, "[recorder] recording ") && strings.Contains(msg, " track") {
		w3Cur.inst++
	}
	simrt.Rec("log", msg, "", int64(level), 0, 0)
}

var w3SPS = []byte{
	0x67, 0x42, 0xc0, 0x28, 0xd9, 0x00, 0x78, 0x02,
	0x27, 0xe5, 0x84, 0x00, 0x00, 0x03, 0x00, 0x04,
	0x00, 0x00, 0x03, 0x00, 0xf0, 0x3c, 0x60, 0xc9, 0x20,
}

var w3PPS = []byte{0x08, 0x06, 0x07, 0x08}

var w3PPS2 = []byte{0x08, 0x07, 0x08, 0x09}

type w3Written struct {
	ID    int64
	Video bool
	IDR   bool
	PTS   int64 // in the track's clock rate
	NTP   time.Time
	Epoch int // recorder instance epoch (bumped by absolute-time jumps)
	Seq   int64
}

type w3Harness struct {
	prop    string
	b       *w3Body
	dir     string
	written []w3Written
	created []string
	inst    int            // recorder instances started so far (a write error or a time jump restarts the recorder)
	segInst map[string]int // segment file -> recorder instance that created it
	twice   map[string]bool // segment files the recorder created more than once (the later creation truncates the earlier file)
	twiceSame map[string]bool // ... by one and the same recorder instance
	done    []string
	ntpBase time.Time

	// write journal of the record directory (through the hook in package os): every write
	// of every segment file in program order, with its offset
	journal  map[string][]w3JOp // base name -> writes since the file was (last) created
	lastFile map[string]*os.File
	writeN   int64
	faults   int64
}

type w3JOp struct {
	off  int64
	data []byte
}

// writeHook is installed in package os while the recorder runs.
func (h *w3Harness) writeHook(f *os.File, b []byte, off int64) (int, error, bool) {
	name := f.Name()
	if !strings.HasPrefix(name, h.dir+string(os.PathSeparator)) {
		return 0, nil, false
	}
	base := filepath.Base(name)
	if h.journal == nil {
		h.journal = map[string][]w3JOp{}
		h.lastFile = map[string]*os.File{}
	}
	if h.lastFile[base] != f {
		// a new file object for this name: os.Create, which truncates
		h.lastFile[base] = f
		h.journal[base] = nil
	}
	pos := off
	if pos < 0 {
		pos, _ = f.Seek(0, io.SeekCurrent)
	}
	h.writeN++
	h.journal[base] = append(h.journal[base], w3JOp{off: pos, data: append([]byte(nil), b...)})
	return 0, nil, false
}

func (h *w3Harness) recordPathFormat(root string) string {
	return filepath.Join(root, "%path", "%Y-%m-%d_%H-%M-%S-%f")
}

// record runs the recording phase: real stream and recorder, simulated publisher.
func (h *w3Harness) record() bool {
	b := h.b
	desc := &description.Session{}
	var vMedia, aMedia *description.Media
	if b.Video {
		vMedia = &description.Media{Type: description.MediaTypeVideo, Formats: []format.Format{&format.H264{PayloadTyp: 96, SPS: w3SPS, PPS: w3PPS, PacketizationMode: 1}}}
		desc.Medias = append(desc.Medias, vMedia)
	}
	if b.Audio {
		aMedia = &description.Media{Type: description.MediaTypeAudio, Formats: []format.Format{&format.LPCM{PayloadTyp: 97, BitDepth: 16, SampleRate: 8000, ChannelCount: 1}}}
		if b.AudioCodec == "mp3" {
			aMedia.Formats = []format.Format{&format.MPEG1Audio{}}
		}
		desc.Medias = append(desc.Medias, aMedia)
	}
	strm := &stream.Stream{OrigDesc: desc, WriteQueueSize: 512, RTPMaxPayloadSize: 1450, Parent: w3Log{}}
	if err := strm.Initialize(); err != nil {
		simrt.Violate("!", "infra", "stream: %v", err)
		return false
	}
	sub := &stream.SubStream{Stream: strm, UseRTPPackets: false}
	if err := sub.Initialize(); err != nil {
		simrt.Violate("!", "infra", "substream: %v", err)
		return false
	}
	rec := &recorder.Recorder{
		PathFormat:      h.recordPathFormat(h.dir),
		Format:          conf.RecordFormatFMP4,
		PartDuration:    time.Duration(b.PartMs) * time.Millisecond,
		MaxPartSize:     conf.StringSize(b.MaxPartSize),
		SegmentDuration: time.Duration(b.SegmentMs) * time.Millisecond,
		PathName:        "cam",
		Stream:          strm,
		OnSegmentCreate: func(p string) {
			for _, c := range h.created {
				if c == p {
					if h.twice == nil {
						h.twice = map[string]bool{}
					}
					if !h.twice[filepath.Base(p)] {
						h.twice[filepath.Base(p)] = true
						simrt.Rec("seg.created-twice", filepath.Base(p), "", 0, 0, 0)
					}
					// by the same recorder instance: two of its segments got the same start time.
					// (Another instance re-creates a name when absolute time has jumped back: file
					// names are instants, a repeated instant is a repeated name.)
					if h.segInst[filepath.Base(p)] == h.inst {
						if h.twiceSame == nil {
							h.twiceSame = map[string]bool{}
						}
						h.twiceSame[filepath.Base(p)] = true
					}
				}
			}
			if h.segInst == nil {
				h.segInst = map[string]int{}
			}
			h.segInst[filepath.Base(p)] = h.inst
			h.created = append(h.created, p)
			simrt.Rec("seg.create", filepath.Base(p), "", 0, 0, 0)
		},
		OnSegmentComplete: func(p string, d time.Duration) {
			h.done = append(h.done, p)
			simrt.Rec("seg.complete", filepath.Base(p), "", int64(d), 0, 0)
		},
		Parent: w3Log{},
	}
	rec.Initialize()

	h.ntpBase = time.Date(2024, 3, 1, 12, 0, 0, 0, time.UTC)
	if h.prop == "C30" {
		// retention compares segment instants with the (simulated) wall clock
		h.ntpBase = time.Now().Truncate(time.Second)
	}
	start := time.Now()
	ntpOff := time.Duration(0)
	nextID := int64(1)
	epoch := 0
	vFrame, aFrame := int64(0), int64(0)
	elapsed := func() time.Duration { return time.Since(start) }
	for _, ph := range b.Phases {
		if ph.PauseMs > 0 {
			time.Sleep(time.Duration(ph.PauseMs) * time.Millisecond)
			// timestamps follow the clock: skip the frames of the pause
			vFrame = int64(elapsed()/(time.Duration(b.FrameMs)*time.Millisecond)) + 1
			aFrame = int64(elapsed()/(time.Duration(b.AudioMs)*time.Millisecond)) + 1
		}
		if ph.NTPJumpMs != 0 {
			ntpOff += time.Duration(ph.NTPJumpMs) * time.Millisecond
			epoch++
		}
		for n := 0; n < ph.Frames; n++ {
			// next event in time order: video frame or audio frame
			vt := time.Duration(vFrame) * time.Duration(b.FrameMs) * time.Millisecond
			at := time.Duration(aFrame)*time.Duration(b.AudioMs)*time.Millisecond + time.Duration(b.AudioOffMs)*time.Millisecond
			// units are written in arrival order; audio may lag behind video of the same time
			atArr := at + time.Duration(b.AudioLagMs)*time.Millisecond
			vtArr := vt + time.Duration(b.VideoLagMs)*time.Millisecond
			isVideo := b.Video && (!b.Audio || vtArr <= atArr)
			t := at
			arr := atArr
			if isVideo {
				t = vt
				arr = vtArr
			}
			if d := arr - elapsed(); d > 0 {
				time.Sleep(d)
			}
			id := nextID
			nextID++
			ntp := h.ntpBase.Add(t + ntpOff)
			if isVideo {
				idr := vFrame%int64(b.GOP) == 0
				nalu := make([]byte, 12)
				nalu[0] = 1
				if idr {
					nalu[0] = 5
				}
				binary.BigEndian.PutUint32(nalu[1:], uint32(id))
				pl := unit.PayloadH264{nalu}
				if idr {
					pl = unit.PayloadH264{w3SPS, w3PPS, nalu}
					if b.AltParams && (vFrame/int64(b.GOP))%3 == 2 {
						// in-band parameter change: the stream updates its description in place
						pl = unit.PayloadH264{w3SPS, w3PPS2, nalu}
					}
				}
				pts := int64(t) * 90000 / int64(time.Second)
				h.written = append(h.written, w3Written{ID: id, Video: true, IDR: idr, PTS: pts, NTP: ntp, Epoch: epoch})
				simrt.Rec("w3.write", "v", "", id, pts, int64(ntpOff))
				sub.WriteUnit(vMedia, vMedia.Formats[0], &unit.Unit{PTS: pts, NTP: ntp, Payload: pl})
				h.written[len(h.written)-1].Seq = simrt.Seq()
				vFrame++
			} else {
				var payload unit.Payload
				var pts int64
				if b.AudioCodec == "mp3" {
					// MPEG-1 layer III, 128 kbit/s, 44.1 kHz, no padding: 417 bytes, 1152 samples
					fr := make([]byte, 417)
					copy(fr, []byte{0xff, 0xfb, 0x90, 0x00})
					binary.BigEndian.PutUint32(fr[4:], uint32(id))
					payload = unit.PayloadMPEG1Audio{fr}
					pts = int64(t) * 90000 / int64(time.Second)
				} else {
					nsamples := int(b.AudioMs * 8)
					pl := make([]byte, nsamples*2)
					binary.BigEndian.PutUint32(pl, uint32(id))
					payload = unit.PayloadLPCM(pl)
					pts = int64(t) * 8000 / int64(time.Second)
				}
				h.written = append(h.written, w3Written{ID: id, PTS: pts, NTP: ntp, Epoch: epoch})
				simrt.Rec("w3.write", "a", "", id, pts, int64(ntpOff))
				sub.WriteUnit(aMedia, aMedia.Formats[0], &unit.Unit{PTS: pts, NTP: ntp, Payload: payload})
				h.written[len(h.written)-1].Seq = simrt.Seq()
				aFrame++
			}
		}
	}
	// let the recorder drain, then stop normally
	time.Sleep(3 * time.Second)
	rec.Close()
	strm.Close()
	simrt.Rec("rec.closed", "", "", 0, 0, 0)
	return true
}

func (w *w3World) Run(t *testing.T, sc *simrt.Scenario, cfg simrt.Config) simrt.Outcome {
	var b w3Body
	if err := json.Unmarshal(sc.Body, &b); err != nil {
		return simrt.Outcome{Violations: []simrt.Violation{{Property: "!", Clause: "bad-scenario", Detail: err.Error()}}}
	}
	if b.GOP < 1 {
		b.GOP = 1
	}
	h := &w3Harness{b: &b, prop: sc.Property}
	w3Cur = h
	an := &w3Analysis{h: h, prop: sc.Property}
	res := simrt.Run(t, cfg, func() {
		// a fixed name under the worker's private TMPDIR (one run at a time per process)
		dir := filepath.Join(os.TempDir(), "w3run")
		os.RemoveAll(dir)
		if err := os.MkdirAll(dir, 0o755); err != nil {
			simrt.Violate("!", "infra", "%v", err)
			return
		}
		defer os.RemoveAll(dir)
		h.dir = filepath.Join(dir, "rec")
		os.MkdirAll(h.dir, 0o755)
		os.SimSetWriteHook(h.writeHook)
		ok := h.record()
		os.SimSetWriteHook(nil)
		if !ok {
			return
		}
		an.scratch = filepath.Join(dir, "states")
		an.run()
	})
	out := simrt.Outcome{Res: res}
	out.Violations = append(out.Violations, res.Violations...)
	out.Violations = append(out.Violations, an.violations...)
	out.Nontrivial = an.states > 0 || an.queries > 0
	sort.Strings(an.abstract)
	out.Abstract = []string{fmt.Sprintf("v%v a%v seg%d files%d", b.Video, b.Audio, b.SegmentMs, an.files), fmt.Sprintf("%s-%d-%d", res.Hash, an.states, an.queries)}
	out.Extra = map[string]any{"files": an.files, "crash_states": an.states, "mutations": an.mutations, "queries": an.queries, "parts": an.parts,
		"samples_written": len(h.written), "list_failures_on_torn": an.listFailTorn,
		"journal_writes": an.journalWrites, "journal_writes_in_place": an.journalInPlace, "write_faults_injected": h.faults}
	return out
}
