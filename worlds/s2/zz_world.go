package reorderer

// S2: the real MoQ subgroup reorderer fed by a simulated network (reordering
// within a window, duplication, loss, late duplicates), from one pusher (the
// statement's sequential semantics) or from several concurrent pushers under
// the simrt scheduler (each QUIC stream has its own goroutine in the server).

import (
	"encoding/json"
	"fmt"
	"math/rand"
	"sort"
	"sync"
	"testing"

	"github.com/bluenviron/mediamtx/internal/logger"
	"github.com/bluenviron/mediamtx/internal/protocols/moq/subgroup"
	"github.com/bluenviron/mediamtx/internal/zzsim/simrt"
)

func simWorldMain(t *testing.T) { simrt.WorkerMain(t, &s2World{}) }

type s2Arrival struct {
	ID   uint64 `json:"id"`
	Size int    `json:"size"`
}

type s2Body struct {
	MaxReordered    int           `json:"max_reordered"`
	MaxPendingBytes int           `json:"max_pending_bytes"`
	Pushers         int           `json:"pushers"`
	Arrivals        []s2Arrival   `json:"arrivals"`
	Dropped         int           `json:"dropped"`
	Duplicated      int           `json:"duplicated"`
	Reordered       int           `json:"reordered"`
	LateDups        int           `json:"late_dups"`
	_               []interface{} `json:"-"`
}

type s2World struct{}

func (w *s2World) Gen(rng *rand.Rand, property, tier string) (any, simrt.Sched) {
	b := &s2Body{
		MaxReordered:    1 + rng.Intn(8),
		MaxPendingBytes: []int{64, 200, 1000, 100000}[rng.Intn(4)],
		Pushers:         []int{1, 1, 1, 2, 3}[rng.Intn(5)],
	}
	n := 5 + rng.Intn(40)
	start := uint64(rng.Intn(3)) * 1000
	window := rng.Intn(2*b.MaxReordered + 1)
	dropP := []float64{0, 0, 0.05, 0.2}[rng.Intn(4)]
	dupP := []float64{0, 0.05, 0.3}[rng.Intn(3)]
	type item struct {
		at   float64
		a    s2Arrival
		late bool
	}
	var items []item
	for i := 0; i < n; i++ {
		id := start + uint64(i)
		if rng.Intn(25) == 0 {
			start += uint64(1 + rng.Intn(5)) // the sender skips group ids
		}
		size := []int{0, 1, 10, 50, 120, 700}[rng.Intn(6)]
		if rng.Float64() < dropP {
			b.Dropped++
			continue
		}
		at := float64(i) + rng.Float64()*float64(window)
		items = append(items, item{at: at, a: s2Arrival{ID: id, Size: size}})
		if rng.Float64() < dupP {
			b.Duplicated++
			sz := size
			if rng.Intn(2) == 0 {
				sz = []int{0, 5, 300}[rng.Intn(3)]
			}
			late := rng.Intn(2) == 0
			d := rng.Float64() * float64(window+1)
			if late {
				d += float64(2*b.MaxReordered + 3)
				b.LateDups++
			}
			items = append(items, item{at: at + d, a: s2Arrival{ID: id, Size: sz}, late: late})
		}
	}
	sort.SliceStable(items, func(i, j int) bool { return items[i].at < items[j].at })
	var maxSeen uint64
	for i, it := range items {
		b.Arrivals = append(b.Arrivals, it.a)
		if i > 0 && it.a.ID < maxSeen {
			b.Reordered++
		}
		if it.a.ID > maxSeen {
			maxSeen = it.a.ID
		}
	}
	sched := simrt.DefaultSched(rng)
	sched.StallProb = 0
	sched.MaxSteps = 20000
	return b, sched
}

type s2Log struct{}

func (s2Log) Log(level logger.Level, format string, args ...any) {
	simrt.Count("log."+format, 1)
}

func (w *s2World) Run(t *testing.T, sc *simrt.Scenario, cfg simrt.Config) simrt.Outcome {
	var b s2Body
	if err := json.Unmarshal(sc.Body, &b); err != nil {
		return simrt.Outcome{Violations: []simrt.Violation{{Property: "!", Clause: "bad-scenario", Detail: err.Error()}}}
	}
	if b.Pushers < 1 {
		b.Pushers = 1
	}
	r := &Reorderer{MaxReordered: b.MaxReordered, MaxPendingBytes: b.MaxPendingBytes, Parent: s2Log{}}
	sgs := make([]*subgroup.SubGroup, len(b.Arrivals))
	index := map[*subgroup.SubGroup]int{}
	for i, a := range b.Arrivals {
		sgs[i] = &subgroup.SubGroup{Header: subgroup.Header{GroupID: a.ID}, Objects: []subgroup.Object{{Payload: make([]byte, a.Size)}}}
		index[sgs[i]] = i
	}
	res := simrt.Run(t, cfg, func() {
		r.Initialize()
		var wg sync.WaitGroup
		for p := 0; p < b.Pushers; p++ {
			p := p
			wg.Add(1)
			go func() {
				defer wg.Done()
				for i := p; i < len(sgs); i += b.Pushers {
					simrt.Rec("push.call", "", "", int64(i), int64(sgs[i].Header.GroupID), int64(p))
					out, err := r.Push(sgs[i])
					if err != nil {
						simrt.Violate("C33", "push-error", "Push returned %v", err)
					}
					for _, o := range out {
						k, ok := index[o]
						if !ok {
							simrt.Violate("C33", "not-received", "a subgroup that was never pushed was handed on (group %d)", o.Header.GroupID)
							k = -1
						}
						simrt.Rec("out", "", "", int64(i), int64(o.Header.GroupID), int64(k))
					}
					// what the reorderer holds back right after this push (read under its own lock)
					r.mu.Lock()
					np, nb := len(r.pending), r.pendingBytes
					r.mu.Unlock()
					simrt.Rec("push.ret", "", "", int64(i), int64(np), int64(nb))
				}
			}()
		}
		wg.Wait()
	})
	out := simrt.Outcome{Res: res}
	out.Violations = append(out.Violations, res.Violations...)
	out.Violations = append(out.Violations, s2Oracle(&b, res.History)...)
	out.Nontrivial = b.Reordered > 0 || b.Duplicated > 0 || b.Dropped > 0
	out.Abstract = []string{fmt.Sprintf("p%d r%d d%d x%d", b.Pushers, s2Bucket(b.Reordered), s2Bucket(b.Duplicated), s2Bucket(b.Dropped)), res.Hash}
	return out
}

func s2Bucket(n int) int {
	switch {
	case n == 0:
		return 0
	case n < 3:
		return 1
	case n < 10:
		return 2
	}
	return 3
}

func s2Oracle(b *s2Body, hist []simrt.Ev) []simrt.Violation {
	var vs []simrt.Violation
	add := func(clause, format string, args ...any) {
		if len(vs) < 10 {
			vs = append(vs, simrt.Violation{Property: "C33", Clause: clause, Detail: fmt.Sprintf(format, args...)})
		}
	}
	type call struct {
		idx, call, ret int64
		outs           []uint64
		np, nb         int64
	}
	calls := map[int64]*call{}
	var order []*call
	handed := map[int64]bool{} // arrival index handed on
	for _, e := range hist {
		switch e.Kind {
		case "push.call":
			c := &call{idx: e.N, call: e.Seq}
			calls[e.N] = c
			order = append(order, c)
		case "out":
			c := calls[e.N]
			c.outs = append(c.outs, uint64(e.M))
			if e.K >= 0 {
				if handed[e.K] {
					add("handed-twice", "the subgroup received as arrival %d (group %d) was handed on twice", e.K, e.M)
				}
				handed[e.K] = true
			}
		case "push.ret":
			c := calls[e.N]
			c.ret, c.np, c.nb = e.Seq, e.M, e.K
		}
	}
	seenID := map[uint64]bool{}
	for _, c := range order {
		for i, id := range c.outs {
			if i > 0 && id <= c.outs[i-1] {
				add("not-increasing", "push of arrival %d handed on groups %v: not strictly increasing", c.idx, c.outs)
			}
			if seenID[id] {
				add("group-twice", "group %d was handed on twice", id)
			}
			seenID[id] = true
		}
		if c.np > int64(b.MaxReordered) {
			add("too-many-pending", "after the push of arrival %d the reorderer holds back %d subgroups, MaxReordered is %d", c.idx, c.np, b.MaxReordered)
		}
		if c.nb > int64(b.MaxPendingBytes) {
			add("too-many-bytes", "after the push of arrival %d the reorderer holds back %d payload bytes, MaxPendingBytes is %d", c.idx, c.nb, b.MaxPendingBytes)
		}
	}
	// order across pushes that do not overlap in time
	for i, c := range order {
		if len(c.outs) == 0 || c.ret == 0 {
			continue
		}
		for _, d := range order[i+1:] {
			if d.call > c.ret && len(d.outs) > 0 && d.outs[0] <= c.outs[len(c.outs)-1] {
				add("not-increasing", "arrival %d handed on %v and a later push (arrival %d) handed on %v", c.idx, c.outs, d.idx, d.outs)
			}
		}
	}
	if b.Pushers == 1 {
		// sequential semantics: a reference for what may be held back and for immediate delivery
		var last uint64
		started := false
		held := map[uint64]int{} // id -> smallest payload received
		for _, c := range order {
			a := b.Arrivals[c.idx]
			first := !started
			if !started {
				started = true
				if len(c.outs) != 1 || c.outs[0] != a.ID {
					add("first-not-delivered", "the first subgroup (group %d) was not handed on at once: %v", a.ID, c.outs)
				}
			} else if a.ID == last+1 {
				if len(c.outs) == 0 || c.outs[0] != a.ID {
					add("next-not-immediate", "group %d directly follows the last delivered group %d but the push handed on %v", a.ID, last, c.outs)
				}
			}
			if first || a.ID > last {
				if sz, ok := held[a.ID]; !ok || a.Size < sz {
					held[a.ID] = a.Size
				}
			}
			for _, id := range c.outs {
				if _, ok := held[id]; !ok {
					add("not-received", "group %d was handed on but is not held back (never received or already delivered)", id)
				}
				if id > last {
					last = id
				}
			}
			for id := range held {
				if id <= last {
					delete(held, id)
				}
			}
			if len(held) > b.MaxReordered {
				add("too-many-pending", "after arrival %d, %d received groups newer than the last delivered one (%d) are held back, MaxReordered is %d", c.idx, len(held), last, b.MaxReordered)
			}
			sum := 0
			for _, sz := range held {
				sum += sz
			}
			if sum > b.MaxPendingBytes {
				add("too-many-bytes", "after arrival %d at least %d payload bytes are held back, MaxPendingBytes is %d", c.idx, sum, b.MaxPendingBytes)
			}
		}
	}
	return vs
}
