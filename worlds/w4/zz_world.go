package auth

// W4 "authworld": the real auth.Manager (http and jwt methods, real net/http
// client code, real keyfunc/jwt verification) against a simulated authority
// (auth endpoint, JWKS endpoint with key rotation) behind a simulated network
// with faults, on the simulated clock.

import (
	"bytes"
	"context"
	"encoding/json"
	"errors"
	"fmt"
	"io"
	"math/rand"
	"net"
	"net/http"
	"sync"
	"testing"
	"time"

	"github.com/bluenviron/mediamtx/internal/conf"
	"github.com/bluenviron/mediamtx/internal/zzsim/simrt"
)

func simWorldMain(t *testing.T) { simrt.WorkerMain(t, &w4World{}) }

type w4World struct{}

func (w *w4World) Gen(rng *rand.Rand, property, tier string) (any, simrt.Sched) {
	return w4Gen(rng, tier)
}

type w4Run struct {
	b       *w4Body
	mu      sync.Mutex
	version int
	fetches []w4Fetch
	current map[int]*w4Call // by goroutine id
}

// slowReader delivers data in chunks; it can fail or stall (honouring the request context).
type w4Reader struct {
	ctx     context.Context
	data    []byte
	failAt  int // >0: return an error after that many bytes
	stallMs int64
	chunk   int // >0: bytes per Read
	done    func(full bool)
	off     int
	told    bool
}

func (r *w4Reader) tell(full bool) {
	if !r.told {
		r.told = true
		if r.done != nil {
			r.done(full)
		}
	}
}

func (r *w4Reader) Read(p []byte) (int, error) {
	if r.stallMs > 0 && r.off > 0 {
		t := time.NewTimer(time.Duration(r.stallMs) * time.Millisecond)
		select {
		case <-t.C:
		case <-r.ctx.Done():
			t.Stop()
			r.tell(false)
			return 0, r.ctx.Err()
		}
	}
	if r.failAt > 0 && r.off >= r.failAt {
		r.tell(false)
		return 0, io.ErrUnexpectedEOF
	}
	if r.off >= len(r.data) {
		r.tell(true)
		return 0, io.EOF
	}
	n := len(p)
	if n > 4096 {
		n = 4096
	}
	if r.chunk > 0 && n > r.chunk {
		n = r.chunk
	}
	if r.off+n > len(r.data) {
		n = len(r.data) - r.off
	}
	if r.failAt > 0 && r.off+n > r.failAt {
		n = r.failAt - r.off
	}
	copy(p, r.data[r.off:r.off+n])
	r.off += n
	if r.off >= len(r.data) && r.failAt == 0 {
		r.tell(true)
	}
	return n, nil
}

func (r *w4Reader) Close() error { return nil }

func (w *w4Run) roundTrip(req *http.Request) (*http.Response, error) {
	gid := simrt.GID()
	w.mu.Lock()
	call := w.current[gid]
	w.mu.Unlock()
	if call == nil {
		return nil, errors.New("sim: request outside a call")
	}
	f := call.op.Fault
	if req.Method == http.MethodGet && req.URL.Path == "/login" {
		// where the authentication server sends those it turns away: an ordinary page, answered 200
		simrt.Rec("auth.login.get", "", "", int64(call.actor), int64(call.idx), 0)
		return &http.Response{Proto: "HTTP/1.1", ProtoMajor: 1, ProtoMinor: 1, Header: http.Header{}, Request: req,
			StatusCode: 200, Status: "200 OK", ContentLength: -1, Body: &w4Reader{ctx: req.Context(), data: []byte("<html>please log in</html>")}}, nil
	}
	isJWKS := req.Method == http.MethodGet
	var post *w4Post
	var fetchIdx = -1
	if isJWKS {
		w.mu.Lock()
		w.fetches = append(w.fetches, w4Fetch{seq: simrt.Rec("jwks.get", "", "", int64(call.actor), int64(call.idx), 0), gid: gid, keys: nil})
		fetchIdx = len(w.fetches) - 1
		w.mu.Unlock()
	} else {
		raw, _ := io.ReadAll(req.Body)
		var body map[string]any
		json.Unmarshal(raw, &body)
		simrt.Rec("auth.post", string(raw), "", int64(call.actor), int64(call.idx), 0)
		w.mu.Lock()
		call.posts = append(call.posts, w4Post{body: body})
		post = &call.posts[len(call.posts)-1]
		w.mu.Unlock()
	}
	ctx := req.Context()
	wait := func(ms int64) error {
		if ms <= 0 {
			return nil
		}
		t := time.NewTimer(time.Duration(ms) * time.Millisecond)
		select {
		case <-t.C:
			return nil
		case <-ctx.Done():
			t.Stop()
			return ctx.Err()
		}
	}
	switch f.Kind {
	case "refuse":
		return nil, &net.OpError{Op: "dial", Net: "tcp", Err: errors.New("connection refused")}
	case "blackhole":
		<-ctx.Done()
		return nil, ctx.Err()
	}
	if err := wait(f.LatencyMs); err != nil {
		return nil, err
	}
	res := &http.Response{Proto: "HTTP/1.1", ProtoMajor: 1, ProtoMinor: 1, Header: http.Header{}, Request: req}
	rd := &w4Reader{ctx: ctx}
	if isJWKS {
		w.mu.Lock()
		keys := w.b.Versions[w.version]
		w.mu.Unlock()
		res.StatusCode = 200
		rd.data = w4JWKS(keys)
		usable := true
		switch {
		case f.Kind == "status":
			res.StatusCode = f.Status
			rd.data = []byte("error page")
			usable = false
		case f.Kind == "body":
			switch f.Body {
			case "garbage":
				rd.data = []byte("<html>not json</html>")
				usable = false
			case "truncated":
				rd.data = rd.data[:len(rd.data)/2]
				usable = false
			case "huge":
				rd.data = append(bytes.Repeat([]byte(" "), 200*1024), rd.data...)
				usable = false
			case "readerr":
				rd.failAt = len(rd.data) / 2
				usable = false
			case "slowbody":
				// the key set arrives in two halves, the second one after the client's timeout
				rd.stallMs = w.b.ReadTimeoutMs + 1000
				rd.chunk = len(rd.data)/2 + 1
				usable = false
			case "emptykeys":
				rd.data = w4JWKS(nil)
				keys = []string{}
			case "padded":
				rd.data = append(rd.data, bytes.Repeat([]byte(" "), 200*1024)...)
			}
		}
		if usable {
			// the key set counts as delivered once the response head is handed over:
			// the body is complete and valid, only a cancellation can still stop it
			w.mu.Lock()
			w.fetches[fetchIdx].keys = append([]string{}, keys...)
			w.fetches[fetchIdx].delivered = true
			w.mu.Unlock()
		}
	} else {
		status := call.op.StatusDeny
		if w.b.granted(post.body) {
			status = call.op.StatusOK
		}
		if f.Kind == "status" {
			status = f.Status
		}
		if f.Kind == "redirect" && req.URL.Path != "/login" {
			// turned away with a redirection to the login page (a 307/308 makes the client repeat
			// the POST there, where it is judged like any POST)
			status = f.Status
			res.Header.Set("Location", "/login")
		}
		res.StatusCode = status
		rd.data = []byte("reason")
		if f.Kind == "body" {
			switch f.Body {
			case "huge", "padded":
				rd.data = bytes.Repeat([]byte("x"), 300*1024)
			case "readerr", "truncated":
				rd.failAt = 3
			case "slowbody":
				rd.stallMs = w.b.ReadTimeoutMs + 1000
				rd.data = bytes.Repeat([]byte("x"), 8192)
			case "garbage", "emptykeys":
				rd.data = nil
			}
		}
		w.mu.Lock()
		post.status = status
		post.delivered = true
		w.mu.Unlock()
	}
	res.Status = fmt.Sprintf("%d %s", res.StatusCode, http.StatusText(res.StatusCode))
	res.ContentLength = -1
	res.Body = rd
	return res, nil
}

func (w *w4World) Run(t *testing.T, sc *simrt.Scenario, cfg simrt.Config) simrt.Outcome {
	var b w4Body
	if err := json.Unmarshal(sc.Body, &b); err != nil {
		return simrt.Outcome{Violations: []simrt.Violation{{Property: "!", Clause: "bad-scenario", Detail: err.Error()}}}
	}
	run := &w4Run{b: &b, current: map[int]*w4Call{}}
	var calls []*w4Call
	res := simrt.Run(t, cfg, func() {
		simrt.HTTPRoundTrip = run.roundTrip
		perm := func(l []w4Perm) []conf.AuthInternalUserPermission {
			var out []conf.AuthInternalUserPermission
			for _, p := range l {
				out = append(out, conf.AuthInternalUserPermission{Action: conf.AuthAction(p.Action), Path: p.Path})
			}
			return out
		}
		m := &Manager{ReadTimeout: time.Duration(b.ReadTimeoutMs) * time.Millisecond}
		if b.Method == "http" {
			m.Method = conf.AuthMethodHTTP
			m.HTTPAddress = "http://authority.test/auth"
			m.HTTPExclude = perm(b.Exclude)
		} else {
			m.Method = conf.AuthMethodJWT
			m.JWTJWKS = "http://authority.test/jwks.json"
			m.JWTClaimKey = b.ClaimKey
			m.JWTExclude = perm(b.Exclude)
			m.JWTIssuer = b.Issuer
			m.JWTAudience = b.Audience
			switch b.InQuery {
			case 1:
				v := false
				m.JWTInHTTPQuery = &v
			case 2:
				v := true
				m.JWTInHTTPQuery = &v
			}
		}
		start := time.Now()
		var wg sync.WaitGroup
		for ai := range b.Actors {
			ai := ai
			actor := &b.Actors[ai]
			if actor.Kind == "nop" || len(actor.Ops) == 0 {
				continue
			}
			wg.Add(1)
			go func() {
				defer wg.Done()
				gid := simrt.GID()
				for oi := range actor.Ops {
					op := &actor.Ops[oi]
					if op.GapMs > 0 {
						time.Sleep(time.Duration(op.GapMs) * time.Millisecond)
					}
					switch op.Kind {
					case "rotate":
						run.mu.Lock()
						if op.To >= 0 && op.To < len(b.Versions) {
							run.version = op.To
						}
						run.mu.Unlock()
						simrt.Rec("jwks.rotate", "", "", int64(op.To), 0, 0)
					case "refresh":
						simrt.Rec("jwks.refresh", "", "", 0, 0, 0)
						m.RefreshJWTJWKS()
					case "auth":
						req := &Request{
							Action:      conf.AuthAction(op.Action),
							Path:        op.Path,
							Query:       b.query(op),
							Protocol:    Protocol(op.Protocol),
							Credentials: &Credentials{User: op.User},
							IP:          net.ParseIP(op.IP),
						}
						if op.PassCred != "" {
							req.Credentials.Pass = w4Token(b.cred(op.PassCred), b.ClaimKey)
						}
						if op.TokenCred != "" {
							req.Credentials.Token = w4Token(b.cred(op.TokenCred), b.ClaimKey)
						}
						c := &w4Call{actor: ai, idx: oi, op: op, gid: gid}
						run.mu.Lock()
						run.current[gid] = c
						c.fetchedBefor = len(run.fetches)
						run.mu.Unlock()
						c.fromS = time.Since(start).Seconds()
						c.callSeq = simrt.Rec("auth.call", op.Action, op.Path, int64(ai), int64(oi), 0)
						_, err := m.Authenticate(req)
						c.admitted = err == nil
						if err != nil {
							c.errText = err.Error()
						}
						okN := int64(0)
						if c.admitted {
							okN = 1
						}
						c.retSeq = simrt.Rec("auth.ret", op.Action, op.Path, int64(ai), int64(oi), okN)
						c.toS = time.Since(start).Seconds()
						run.mu.Lock()
						delete(run.current, gid)
						calls = append(calls, c)
						run.mu.Unlock()
					}
				}
			}()
		}
		wg.Wait()
	})
	out := simrt.Outcome{Res: res}
	out.Violations = append(out.Violations, res.Violations...)
	adm, rej := 0, 0
	if len(res.Violations) == 0 {
		var vs []simrt.Violation
		vs, adm, rej = w4Check(&b, calls, run.fetches)
		out.Violations = append(out.Violations, vs...)
	}
	nFetch, nFetchFail := 0, 0
	for _, f := range run.fetches {
		nFetch++
		if !f.delivered {
			nFetchFail++
		}
	}
	out.Nontrivial = adm > 0 && rej > 0
	out.Abstract = []string{fmt.Sprintf("%s a%d r%d f%d/%d", b.Method, adm, rej, nFetchFail, nFetch), res.Hash}
	out.Extra = map[string]any{"calls": len(calls), "admitted": adm, "rejected": rej, "jwks_fetches": nFetch, "jwks_fetches_failed": nFetchFail}
	return out
}
