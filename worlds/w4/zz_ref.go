package auth

// W4 "authworld", uninstrumented part: scenario types, generator, token
// construction and the reference decision written from the statement of C02.

import (
	"crypto/ed25519"
	"crypto/hmac"
	"crypto/sha256"
	"encoding/base64"
	"encoding/json"
	"fmt"
	"math/rand"
	"regexp"
	"sort"
	"strings"
	"time"

	"github.com/golang-jwt/jwt/v5"

	"github.com/bluenviron/mediamtx/internal/zzsim/simrt"
)

// ---- scenario

type w4Perm struct {
	Action string `json:"action"`
	Path   string `json:"path,omitempty"`
}

// w4Cred is one entry of the credential table of a run.
type w4Cred struct {
	ID   string `json:"id"`
	Kind string `json:"kind"` // opaque (a password or an opaque token), jwt
	// opaque
	Value string `json:"value,omitempty"`
	// jwt
	SignKey   string   `json:"sign_key,omitempty"` // k1..k4
	Kid       string   `json:"kid,omitempty"`      // "" = absent, else the kid written in the header
	Tamper    string   `json:"tamper,omitempty"`   // "", payload, sig, none, hs256pub
	Iss       string   `json:"iss,omitempty"`
	Aud       []string `json:"aud,omitempty"`
	ExpS      int64    `json:"exp_s,omitempty"` // seconds after the start of the run; 0 = absent
	NbfS      int64    `json:"nbf_s,omitempty"`
	Perms     []w4Perm `json:"perms,omitempty"`
	PermsForm string   `json:"perms_form,omitempty"` // array, string, missing, otherkey, garbage
	Sub       string   `json:"sub,omitempty"`
}

type w4Fault struct {
	Kind      string `json:"kind,omitempty"`       // "", refuse, blackhole, slow, status, body
	LatencyMs int64  `json:"latency_ms,omitempty"` // before the response head
	Status    int    `json:"status,omitempty"`     // kind status: forced status code
	Body      string `json:"body,omitempty"`       // kind body: garbage, truncated, huge, readerr, slowbody, emptykeys, padded
}

type w4Op struct {
	Kind  string `json:"kind"` // auth; rotate, refresh (authority actor)
	GapMs int64  `json:"gap_ms,omitempty"`
	// auth
	Action     string  `json:"action,omitempty"`
	Path       string  `json:"path,omitempty"`
	Protocol   string  `json:"protocol,omitempty"`
	IP         string  `json:"ip,omitempty"`
	User       string  `json:"user,omitempty"`
	PassCred   string  `json:"pass_cred,omitempty"`  // credential id placed in the password
	TokenCred  string  `json:"token_cred,omitempty"` // credential id placed in the token field
	QueryCred  string  `json:"query_cred,omitempty"` // credential id placed in the query
	QueryKey   string  `json:"query_key,omitempty"`  // token, jwt
	QueryExtra bool    `json:"query_extra,omitempty"`
	StatusOK   int     `json:"status_ok,omitempty"`   // what the authority answers when it grants
	StatusDeny int     `json:"status_deny,omitempty"` // ... and when it does not
	Fault      w4Fault `json:"fault,omitempty"`       // applied to the request this call sends (POST or JWKS GET)
	// rotate
	To int `json:"to,omitempty"`
}

type w4Actor struct {
	Kind string `json:"kind"` // client, authority, nop
	Ops  []w4Op `json:"ops"`
}

type w4Body struct {
	Method        string     `json:"method"` // http, jwt
	Exclude       []w4Perm   `json:"exclude,omitempty"`
	ReadTimeoutMs int64      `json:"read_timeout_ms"`
	ClaimKey      string     `json:"claim_key,omitempty"`
	Issuer        string     `json:"issuer,omitempty"`
	Audience      string     `json:"audience,omitempty"`
	InQuery       int        `json:"in_query,omitempty"` // 0 unset, 1 false, 2 true
	Creds         []w4Cred   `json:"creds"`
	Grants        []w4Grant  `json:"grants,omitempty"`   // http: what the authority grants
	Versions      [][]string `json:"versions,omitempty"` // jwt: key ids of each JWKS version
	Actors        []w4Actor  `json:"actors"`
}

// w4Grant is one rule of the HTTP authority: it answers 2xx iff some rule matches the POST body.
type w4Grant struct {
	User     string   `json:"user,omitempty"`
	Password string   `json:"password,omitempty"`
	Token    string   `json:"token,omitempty"`
	Actions  []string `json:"actions,omitempty"` // empty = any
	Paths    []string `json:"paths,omitempty"`   // empty = any
}

var w4Actions = []string{"publish", "read", "playback", "api", "metrics", "pprof"}
var w4Paths = []string{"cam1", "cam2", "open", "deep/x"}
var w4Protocols = []string{"rtsp", "rtmp", "hls", "webrtc", "srt"}

func w4Gen(rng *rand.Rand, tier string) (*w4Body, simrt.Sched) {
	b := &w4Body{ReadTimeoutMs: []int64{1000, 5000, 10000}[rng.Intn(3)]}
	if rng.Intn(2) == 0 {
		b.Method = "http"
	} else {
		b.Method = "jwt"
	}
	for i, n := 0, rng.Intn(3); i < n; i++ {
		e := w4Perm{Action: w4Actions[rng.Intn(len(w4Actions))]}
		switch rng.Intn(4) {
		case 0:
			e.Path = "open"
		case 1:
			e.Path = "~^cam[0-9]$"
		case 2:
			e.Path = "deep/x"
		}
		b.Exclude = append(b.Exclude, e)
	}
	pick := func(l []string) string { return l[rng.Intn(len(l))] }
	perms := func() []w4Perm {
		var ps []w4Perm
		for i, n := 0, 1+rng.Intn(3); i < n; i++ {
			p := w4Perm{Action: pick(w4Actions)}
			switch rng.Intn(4) {
			case 0:
				p.Path = pick(w4Paths)
			case 1:
				p.Path = "~^cam[0-9]$"
			case 2:
				p.Path = "~^deep/"
			}
			ps = append(ps, p)
		}
		return ps
	}
	b.Creds = append(b.Creds,
		w4Cred{ID: "pw1", Kind: "opaque", Value: "secret1"},
		w4Cred{ID: "pw2", Kind: "opaque", Value: "wrongpass"},
		w4Cred{ID: "tokA", Kind: "opaque", Value: "opaque-token-A"},
		w4Cred{ID: "tokB", Kind: "opaque", Value: "opaque-token-B"})
	if b.Method == "http" {
		b.Grants = append(b.Grants,
			w4Grant{User: "alice", Password: "secret1", Actions: []string{"publish", "read", "playback"}},
			w4Grant{Token: "opaque-token-A", Paths: []string{"cam1", "deep/x"}},
			w4Grant{User: "admin", Password: "secret1"})
		if rng.Intn(2) == 0 {
			b.Grants = append(b.Grants, w4Grant{Token: "opaque-token-B", Actions: []string{"api", "metrics", "pprof", "read"}})
		}
	} else {
		b.ClaimKey = pick([]string{"mediamtx_permissions", "perms"})
		b.Issuer = pick([]string{"", "", "issuer1"})
		b.Audience = pick([]string{"", "", "aud1"})
		b.InQuery = rng.Intn(3)
		b.Versions = [][]string{{"k1"}, {"k1", "k2"}, {"k2"}, {"k3", "k2"}, {}}[0 : 2+rng.Intn(4)]
		b.Versions[0] = [][]string{{"k1"}, {"k1", "k2"}}[rng.Intn(2)]
		nj := 3 + rng.Intn(5)
		for i := 0; i < nj; i++ {
			c := w4Cred{ID: fmt.Sprintf("jwt%d", i), Kind: "jwt", SignKey: pick([]string{"k1", "k1", "k2", "k3", "k4"}), PermsForm: "array", Sub: fmt.Sprintf("user%d", i), Perms: perms()}
			switch rng.Intn(4) {
			case 0:
				c.Kid = ""
			case 1:
				c.Kid = pick([]string{"k1", "k2", "k9"})
			default:
				c.Kid = c.SignKey
			}
			if b.Issuer != "" || rng.Intn(3) == 0 {
				c.Iss = pick([]string{"issuer1", "issuer1", "issuer2", ""})
			}
			if b.Audience != "" || rng.Intn(3) == 0 {
				c.Aud = [][]string{{"aud1"}, {"aud2", "aud1"}, {"aud2"}, nil}[rng.Intn(4)]
			}
			switch rng.Intn(4) {
			case 0:
				c.ExpS = int64(1 + rng.Intn(30))
			case 1:
				c.ExpS = int64(3000 + rng.Intn(3000))
			case 2:
				c.ExpS = 1000000
			}
			if rng.Intn(6) == 0 {
				c.NbfS = int64(1 + rng.Intn(20))
			}
			switch rng.Intn(10) {
			case 0:
				c.PermsForm = "string"
			case 1:
				c.PermsForm = "missing"
			case 2:
				c.PermsForm = "otherkey"
			case 3:
				c.PermsForm = "garbage"
			}
			switch rng.Intn(8) {
			case 0:
				c.Tamper = "payload"
			case 1:
				c.Tamper = "sig"
			case 2:
				c.Tamper = "none"
			case 3:
				c.Tamper = "hs256pub"
			}
			b.Creds = append(b.Creds, c)
		}
	}
	var credIDs []string
	for _, c := range b.Creds {
		credIDs = append(credIDs, c.ID)
	}
	fault := func(jwksLikely bool) w4Fault {
		f := w4Fault{LatencyMs: []int64{0, 0, 1, 20, 300}[rng.Intn(5)]}
		if rng.Intn(4) != 0 {
			return f
		}
		switch rng.Intn(7) {
		case 0:
			f.Kind = "refuse"
		case 1:
			f.Kind = "blackhole"
		case 2:
			f.Kind = "slow"
			f.LatencyMs = b.ReadTimeoutMs + 500
		case 3:
			f.Kind = "status"
			f.Status = []int{500, 503, 404, 301, 199, 300, 100}[rng.Intn(7)]
			if !jwksLikely && rng.Intn(2) == 0 {
				// the server turns the request away by sending it to its login page
				f.Kind = "redirect"
				f.Status = []int{301, 302, 303, 307, 308}[rng.Intn(5)]
			}
		case 4:
			f.LatencyMs = b.ReadTimeoutMs - 100
		default:
			f.Kind = "body"
			f.Body = []string{"garbage", "truncated", "huge", "readerr", "slowbody", "emptykeys", "padded"}[rng.Intn(7)]
		}
		return f
	}
	nc := 1 + rng.Intn(3)
	total := 4 + rng.Intn(10)
	gaps := []int64{0, 0, 1, 10, 100, 1000, 5000, 30000, 1800000, 3600000}
	for c := 0; c < nc; c++ {
		b.Actors = append(b.Actors, w4Actor{Kind: "client"})
	}
	for i := 0; i < total; i++ {
		op := w4Op{Kind: "auth", GapMs: gaps[rng.Intn(len(gaps))], Action: pick(w4Actions), Path: pick(w4Paths),
			Protocol: pick(w4Protocols), IP: pick([]string{"127.0.0.1", "10.0.0.7", "fe80::1"}),
			StatusOK: []int{200, 200, 201, 204, 299}[rng.Intn(5)], StatusDeny: []int{401, 401, 403, 400, 500, 300, 199}[rng.Intn(7)]}
		if rng.Intn(3) != 0 {
			op.User = pick([]string{"alice", "admin", "bob"})
		}
		// credential placements; several at once exercise the precedence
		if rng.Intn(2) == 0 {
			op.PassCred = pick(credIDs)
		}
		if rng.Intn(3) == 0 {
			op.TokenCred = pick(credIDs)
		}
		if rng.Intn(3) == 0 {
			op.QueryCred = pick(credIDs)
			op.QueryKey = pick([]string{"token", "jwt"})
			op.QueryExtra = rng.Intn(2) == 0
		}
		if rng.Intn(2) == 0 {
			// a request built to be granted (unless a fault, the clock, the key set or a competing placement decides otherwise)
			op.PassCred, op.TokenCred, op.QueryCred, op.QueryKey = "", "", "", ""
			var good string
			concrete := func(p w4Perm) string {
				switch {
				case p.Path == "":
					return pick(w4Paths)
				case p.Path == "~^cam[0-9]$":
					return pick([]string{"cam1", "cam2"})
				case p.Path == "~^deep/":
					return "deep/x"
				}
				return p.Path
			}
			if b.Method == "http" {
				g := b.Grants[rng.Intn(len(b.Grants))]
				if len(g.Actions) != 0 {
					op.Action = pick(g.Actions)
				}
				if len(g.Paths) != 0 {
					op.Path = pick(g.Paths)
				}
				if g.Token != "" {
					good = map[string]string{"opaque-token-A": "tokA", "opaque-token-B": "tokB"}[g.Token]
				} else {
					op.User = g.User
					op.PassCred = "pw1"
				}
			} else {
				c := b.Creds[4+rng.Intn(len(b.Creds)-4)]
				p := c.Perms[rng.Intn(len(c.Perms))]
				op.Action = p.Action
				op.Path = concrete(p)
				good = c.ID
			}
			if good != "" {
				switch rng.Intn(4) {
				case 0:
					op.TokenCred = good
					if rng.Intn(3) == 0 {
						op.PassCred = pick(credIDs)
					}
				case 1:
					op.PassCred = good
					if rng.Intn(3) == 0 {
						op.QueryCred, op.QueryKey = pick(credIDs), "token"
					}
				default:
					op.QueryCred, op.QueryKey = good, pick([]string{"token", "jwt"})
					op.QueryExtra = rng.Intn(2) == 0
					if rng.Intn(2) == 0 {
						op.Protocol = pick([]string{"rtsp", "rtmp"})
					}
				}
			}
		}
		op.Fault = fault(b.Method == "jwt")
		a := rng.Intn(nc)
		b.Actors[a].Ops = append(b.Actors[a].Ops, op)
	}
	if b.Method == "jwt" {
		au := w4Actor{Kind: "authority"}
		for i, n := 0, rng.Intn(4); i < n; i++ {
			if rng.Intn(3) == 0 {
				au.Ops = append(au.Ops, w4Op{Kind: "refresh", GapMs: gaps[rng.Intn(len(gaps))]})
			} else {
				au.Ops = append(au.Ops, w4Op{Kind: "rotate", GapMs: gaps[rng.Intn(len(gaps))], To: rng.Intn(len(b.Versions))})
			}
		}
		b.Actors = append(b.Actors, au)
	}
	sched := simrt.DefaultSched(rng)
	sched.MaxSteps = 200000
	sched.HorizonS = 400000
	sched.StallProb = 0
	return b, sched
}

// ---- keys and tokens

func w4Key(id string) ed25519.PrivateKey {
	h := sha256.Sum256([]byte("w4-key-" + id))
	return ed25519.NewKeyFromSeed(h[:])
}

func w4JWKS(ids []string) []byte {
	type jwk struct {
		Kty string `json:"kty"`
		Crv string `json:"crv"`
		X   string `json:"x"`
		Kid string `json:"kid"`
		Use string `json:"use"`
	}
	keys := []jwk{}
	for _, id := range ids {
		pub := w4Key(id).Public().(ed25519.PublicKey)
		keys = append(keys, jwk{"OKP", "Ed25519", base64.RawURLEncoding.EncodeToString(pub), id, "sig"})
	}
	out, _ := json.Marshal(map[string]any{"keys": keys})
	return out
}

var w4Epoch = time.Date(2000, 1, 1, 0, 0, 0, 0, time.UTC)

func b64(b []byte) string { return base64.RawURLEncoding.EncodeToString(b) }

// w4Token renders a credential as the string a client presents.
func w4Token(c *w4Cred, claimKey string) string {
	if c.Kind != "jwt" {
		return c.Value
	}
	claims := jwt.MapClaims{}
	if c.Sub != "" {
		claims["sub"] = c.Sub
	}
	if c.Iss != "" {
		claims["iss"] = c.Iss
	}
	if len(c.Aud) == 1 {
		claims["aud"] = c.Aud[0]
	} else if len(c.Aud) > 1 {
		claims["aud"] = c.Aud
	}
	if c.ExpS != 0 {
		claims["exp"] = w4Epoch.Unix() + c.ExpS
	}
	if c.NbfS != 0 {
		claims["nbf"] = w4Epoch.Unix() + c.NbfS
	}
	perms := []map[string]string{}
	for _, p := range c.Perms {
		perms = append(perms, map[string]string{"action": p.Action, "path": p.Path})
	}
	switch c.PermsForm {
	case "array":
		claims[claimKey] = perms
	case "string":
		enc, _ := json.Marshal(perms)
		claims[claimKey] = string(enc)
	case "otherkey":
		claims["x_"+claimKey] = perms
	case "garbage":
		claims[claimKey] = 42
	}
	header := map[string]any{"typ": "JWT", "alg": "EdDSA"}
	if c.Kid != "" {
		header["kid"] = c.Kid
	}
	switch c.Tamper {
	case "none":
		header["alg"] = "none"
	case "hs256pub":
		header["alg"] = "HS256"
	}
	hb, _ := json.Marshal(header)
	cb, _ := json.Marshal(claims)
	signing := b64(hb) + "." + b64(cb)
	var sig []byte
	switch c.Tamper {
	case "none":
		return signing + "."
	case "hs256pub":
		// algorithm confusion: HMAC keyed with the public key bytes
		m := hmac.New(sha256.New, w4Key(c.SignKey).Public().(ed25519.PublicKey))
		m.Write([]byte(signing))
		sig = m.Sum(nil)
	default:
		sig = ed25519.Sign(w4Key(c.SignKey), []byte(signing))
	}
	switch c.Tamper {
	case "sig":
		sig[5] ^= 0x40
	case "payload":
		// re-encode other claims under the old signature: grant everything
		claims[claimKey] = []map[string]string{{"action": "publish"}, {"action": "read"}, {"action": "playback"}, {"action": "api"}, {"action": "metrics"}, {"action": "pprof"}}
		delete(claims, "exp")
		cb2, _ := json.Marshal(claims)
		return b64(hb) + "." + b64(cb2) + "." + b64(sig)
	}
	return signing + "." + b64(sig)
}

// ---- reference decision (from the statement)

func w4PermMatches(perms []w4Perm, action, path string) bool {
	for _, p := range perms {
		if p.Action != action {
			continue
		}
		if action != "publish" && action != "read" && action != "playback" {
			return true
		}
		switch {
		case p.Path == "":
			return true
		case strings.HasPrefix(p.Path, "~"):
			if re, err := regexp.Compile(p.Path[1:]); err == nil && re.MatchString(path) {
				return true
			}
		case p.Path == path:
			return true
		}
	}
	return false
}

func w4IsHTTPProto(op *w4Op) bool {
	return op.Protocol == "hls" || op.Protocol == "webrtc" || op.Action == "playback" || op.Action == "api" || op.Action == "metrics" || op.Action == "pprof"
}

func (b *w4Body) cred(id string) *w4Cred {
	for i := range b.Creds {
		if b.Creds[i].ID == id {
			return &b.Creds[i]
		}
	}
	return nil
}

// w4Presented says which credential is the token of the request, by the precedence of the statement.
func (b *w4Body) presented(op *w4Op) *w4Cred {
	if op.TokenCred != "" {
		return b.cred(op.TokenCred)
	}
	if op.PassCred != "" {
		return b.cred(op.PassCred)
	}
	if op.QueryCred != "" {
		allowed := op.Protocol == "rtsp" || op.Protocol == "rtmp" || (b.Method == "jwt" && b.InQuery == 2 && w4IsHTTPProto(op))
		if allowed {
			return b.cred(op.QueryCred)
		}
	}
	return nil
}

func (b *w4Body) query(op *w4Op) string {
	if op.QueryCred == "" {
		if op.QueryExtra {
			return "foo=bar"
		}
		return ""
	}
	q := op.QueryKey + "=" + w4Token(b.cred(op.QueryCred), b.ClaimKey)
	if op.QueryExtra {
		q = "foo=bar&" + q + "&z=1"
	}
	return q
}

// w4Granted is the HTTP authority: does it grant the POST it received?
func (b *w4Body) granted(body map[string]any) bool {
	s := func(k string) string { v, _ := body[k].(string); return v }
	for _, g := range b.Grants {
		if g.Token != "" {
			if s("token") != g.Token {
				continue
			}
		} else if s("user") != g.User || s("password") != g.Password {
			continue
		}
		if len(g.Actions) != 0 && !w4In(g.Actions, s("action")) {
			continue
		}
		if len(g.Paths) != 0 && !w4In(g.Paths, s("path")) {
			continue
		}
		return true
	}
	return false
}

func w4In(l []string, s string) bool {
	for _, x := range l {
		if x == s {
			return true
		}
	}
	return false
}

// w4JWTValid: does the credential verify against key set ks at instant now (seconds after the epoch of the run)
// and grant the action on the path?  undecided is set when now is within a second of exp/nbf.
func (b *w4Body) jwtValid(c *w4Cred, ks []string, fromS, toS float64, action, path string) (valid, undecided bool) {
	if c == nil || c.Kind != "jwt" || c.Tamper != "" {
		return false, false
	}
	if !w4In(ks, c.SignKey) {
		return false, false
	}
	if c.Kid != "" && c.Kid != c.SignKey {
		return false, false
	}
	if b.Issuer != "" && c.Iss != b.Issuer {
		return false, false
	}
	if b.Audience != "" && !w4In(c.Aud, b.Audience) {
		return false, false
	}
	if c.PermsForm != "array" && c.PermsForm != "string" {
		return false, false
	}
	if !w4PermMatches(c.Perms, action, path) {
		return false, false
	}
	if c.ExpS != 0 {
		e := float64(c.ExpS)
		if fromS >= e {
			return false, false
		}
		if toS >= e-0.001 {
			undecided = true
		}
	}
	if c.NbfS != 0 {
		n := float64(c.NbfS)
		if toS < n {
			return false, false
		}
		if fromS < n+0.001 {
			undecided = true
		}
	}
	return true, undecided
}

// ---- records made by the harness and the post-hoc check

type w4Fetch struct {
	seq       int64
	gid       int
	keys      []string
	delivered bool // a usable key set was handed to the client
}

type w4Call struct {
	actor, idx   int
	op           *w4Op
	gid          int
	callSeq      int64
	retSeq       int64
	fromS, toS   float64
	admitted     bool
	errText      string
	posts        []w4Post
	fetchedBefor int // number of fetch records when the call started
}

type w4Post struct {
	body      map[string]any
	status    int
	delivered bool
}

func w4Check(b *w4Body, calls []*w4Call, fetches []w4Fetch) (vs []simrt.Violation, admitted, rejected int) {
	sort.Slice(calls, func(i, j int) bool { return calls[i].callSeq < calls[j].callSeq })
	for _, c := range calls {
		op := c.op
		what := fmt.Sprintf("call %d.%d action=%s path=%s protocol=%s user=%q pass=%s token=%s query=%s(%s) at %.3f..%.3f s", c.actor, c.idx, op.Action, op.Path, op.Protocol, op.User, op.PassCred, op.TokenCred, op.QueryCred, op.QueryKey, c.fromS, c.toS)
		excluded := w4PermMatches(b.Exclude, op.Action, op.Path)
		if excluded {
			if !c.admitted {
				vs = append(vs, simrt.Violation{Property: "C02", Clause: "excluded-rejected", Detail: what + ": the action/path is excluded from authentication but the request was rejected: " + c.errText})
			}
			continue
		}
		pres := b.presented(op)
		if b.Method == "http" {
			// every POST must carry the request's fields
			want := map[string]string{"ip": op.IP, "user": op.User, "password": "", "token": "", "action": op.Action, "path": op.Path, "protocol": op.Protocol, "query": b.query(op)}
			if op.PassCred != "" {
				want["password"] = w4Token(b.cred(op.PassCred), b.ClaimKey)
			}
			if pres != nil {
				want["token"] = w4Token(pres, b.ClaimKey)
			}
			okDelivered := false
			for _, p := range c.posts {
				for _, k := range []string{"ip", "user", "password", "token", "action", "path", "protocol", "query"} {
					got, _ := p.body[k].(string)
					if got != want[k] {
						vs = append(vs, simrt.Violation{Property: "C02", Clause: "post-field-wrong", Detail: fmt.Sprintf("%s: the POST to the auth server carried %s=%q, the request has %q", what, k, got, want[k])})
					}
				}
				if p.delivered && p.status >= 200 && p.status <= 299 {
					okDelivered = true
				}
			}
			// (a POST that the server itself asked for, by answering the previous one 307 or 308, is not a repetition)
			asked := 0
			for i := 1; i < len(c.posts); i++ {
				if s := c.posts[i-1].status; c.posts[i-1].delivered && (s == 307 || s == 308) {
					asked++
				}
			}
			if len(c.posts)-asked > 1 {
				vs = append(vs, simrt.Violation{Property: "C02", Clause: "post-repeated", Detail: fmt.Sprintf("%s: %d POSTs for one request", what, len(c.posts))})
			}
			if c.admitted && !okDelivered {
				vs = append(vs, simrt.Violation{Property: "C02", Clause: "admitted-without-grant", Detail: what + ": admitted although the auth server did not answer 2xx (" + w4PostText(c.posts) + ")"})
			}
			if !c.admitted && okDelivered {
				vs = append(vs, simrt.Violation{Property: "C02", Clause: "rejected-despite-grant", Detail: what + ": rejected although the auth server answered 2xx (" + w4PostText(c.posts) + "): " + c.errText})
			}
		} else {
			// key sets that can be the cached one during this call
			var cand [][]string
			var last []string
			ownFailed := false
			anyBefore := false
			for i, f := range fetches {
				if i < c.fetchedBefor {
					if f.delivered {
						last = f.keys
						anyBefore = true
					}
					continue
				}
				if f.seq > c.retSeq {
					break
				}
				if f.gid == c.gid && !f.delivered {
					ownFailed = true
				}
				if f.delivered {
					cand = append(cand, f.keys)
				}
			}
			if anyBefore {
				cand = append(cand, last)
			}
			if ownFailed {
				if c.admitted {
					vs = append(vs, simrt.Violation{Property: "C02", Clause: "admitted-without-keys", Detail: what + ": admitted although the JWKS download made for this request failed"})
				}
				continue
			}
			allValid, noneValid, und := len(cand) > 0, true, false
			for _, ks := range cand {
				v, u := b.jwtValid(pres, ks, c.fromS, c.toS, op.Action, op.Path)
				und = und || u
				if v {
					noneValid = false
				} else {
					allValid = false
				}
			}
			if und {
				continue
			}
			desc := "none"
			if pres != nil {
				pj, _ := json.Marshal(pres)
				desc = string(pj)
			}
			if c.admitted && noneValid {
				vs = append(vs, simrt.Violation{Property: "C02", Clause: "admitted-invalid-token", Detail: fmt.Sprintf("%s: admitted, but the presented token %s does not verify/grant under any key set the server can hold %v (issuer %q audience %q claim %q)", what, desc, cand, b.Issuer, b.Audience, b.ClaimKey)})
			}
			if !c.admitted && allValid {
				vs = append(vs, simrt.Violation{Property: "C02", Clause: "rejected-valid-token", Detail: fmt.Sprintf("%s: rejected (%s), but the presented token %s verifies and grants under every key set the server can hold %v (issuer %q audience %q claim %q)", what, c.errText, desc, cand, b.Issuer, b.Audience, b.ClaimKey)})
			}
		}
		if c.admitted {
			admitted++
		} else {
			rejected++
		}
	}
	return vs, admitted, rejected
}

func w4PostText(ps []w4Post) string {
	if len(ps) == 0 {
		return "no POST reached the auth server"
	}
	var sb strings.Builder
	for _, p := range ps {
		fmt.Fprintf(&sb, "status %d delivered=%v ", p.status, p.delivered)
	}
	return sb.String()
}
