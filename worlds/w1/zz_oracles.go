package core

// Post-hoc oracles of W1 over the recorded history. Every clause is written
// from the property statement; the relaxations that keep a clause from
// demanding more than the statement are spelled out next to it.

import (
	"fmt"
	"hash/fnv"
	"regexp"
	"sort"
	"strings"
	"time"

	"github.com/bluenviron/mediamtx/internal/zzsim/simrt"
)

const w1Inf = int64(1) << 62

type w1PubSess struct {
	name                            string
	path                            string
	skip                            bool
	findCall, findRet               int64
	findOK                          bool
	addCall, addRet                 int64
	ok                              bool
	pathObj                         int64
	closeSeq, removeCall, removeRet int64
	firstSerial, lastSerial         int64
	authSeen                        bool
	idByte                          int64
	addCallT, addRetT               time.Duration
	addErr                          string
}

type w1Write struct {
	who        string
	serial     int64
	fm         int64
	pub        int64
	begin, end int64
}

type w1RdSess struct {
	name                    string
	path                    string
	skip                    bool
	addCall, addRet         int64
	addCallT, addRetT       time.Duration
	ok                      bool
	errText                 string
	pathObj, streamObj      int64
	maxReaders              int64
	saddRet                 int64
	closeSeq                int64
	closeT                  time.Duration
	nclose                  int
	closeSeqs               []int64
	sremCall, sremRet       int64
	discarded               int64
	premoveCall, premoveRet int64
	premoveCallT            time.Duration
	datas                   []simrt.Ev
	fillers                 []int64    // seqs at which the reader received filler units of an always-available stream
	readds                  [][3]int64 // call, ret, failedWithMax
	errSeq                  int64
}

func (r *w1RdSess) defEnd() int64 {
	e := w1Inf
	if r.closeSeq > 0 && r.closeSeq < e {
		e = r.closeSeq
	}
	if r.premoveCall > 0 && r.premoveCall < e {
		e = r.premoveCall
	}
	return e
}

func (p *w1PubSess) defEnd() int64 {
	e := w1Inf
	if p.closeSeq > 0 && p.closeSeq < e {
		e = p.closeSeq
	}
	if p.removeCall > 0 && p.removeCall < e {
		e = p.removeCall
	}
	return e
}

type w1Hist struct {
	ev      []simrt.Ev
	pubs    []*w1PubSess
	rds     []*w1RdSess
	rdByNm  map[string]*w1RdSess
	writes  []w1Write
	wrIndex map[[2]int64]*w1Write // (pub, serial)
	logs    []simrt.Ev
	reloads [][3]int64 // call seq, ret seq, version
	last    map[string]int64
}

func w1Parse(ev []simrt.Ev) *w1Hist {
	h := &w1Hist{ev: ev, rdByNm: map[string]*w1RdSess{}, wrIndex: map[[2]int64]*w1Write{}, last: map[string]int64{}}
	curPub := map[string]*w1PubSess{}
	lastFailed := map[string]*w1PubSess{}
	lastPub := map[string]*w1PubSess{}
	pend := map[string]*w1Write{}
	var curReload *[3]int64
	for _, e := range ev {
		h.last[e.Kind] = e.Seq
		switch e.Kind {
		case "log":
			h.logs = append(h.logs, e)
		case "pub.find.call":
			p := &w1PubSess{name: e.A, path: e.B, findCall: e.Seq, firstSerial: -1}
			curPub[e.A] = p
			h.pubs = append(h.pubs, p)
		case "pub.find.ret":
			if p := curPub[e.A]; p != nil {
				p.findRet = e.Seq
				p.findOK = e.N == 1
			}
		case "pub.add.call":
			p := curPub[e.A]
			if p == nil || p.addCall != 0 {
				p = &w1PubSess{name: e.A, path: e.B, firstSerial: -1}
				curPub[e.A] = p
				h.pubs = append(h.pubs, p)
			}
			p.addCall = e.Seq
			p.addCallT = e.T
			p.skip = e.N == 1
		case "pub.add.ret":
			if p := curPub[e.A]; p != nil {
				p.addRet = e.Seq
				p.addRetT = e.T
				p.ok = e.N == 1
				p.pathObj = e.M
				p.idByte = e.K
				if !p.ok {
					delete(curPub, e.A)
					lastFailed[e.A] = p
				}
			}
		case "pub.add.err":
			if p := lastFailed[e.A]; p != nil {
				p.addErr = e.B
			}
		case "pub.close":
			p := curPub[e.A]
			if p == nil {
				// closed by the path after its RemovePublisher had already returned: the
				// path was terminating and had not processed the removal
				p = lastPub[e.A]
			}
			if p != nil && p.closeSeq == 0 {
				p.closeSeq = e.Seq
			}
		case "pub.remove.call":
			if p := curPub[e.A]; p != nil {
				p.removeCall = e.Seq
			}
		case "pub.remove.ret":
			if p := curPub[e.A]; p != nil {
				p.removeRet = e.Seq
				lastPub[e.A] = p
				delete(curPub, e.A)
			}
		case "write.begin":
			w := &w1Write{who: e.A, serial: e.N, fm: e.M, pub: e.K, begin: e.Seq}
			pend[e.A] = w
			if p := curPub[e.A]; p != nil {
				if p.firstSerial < 0 {
					p.firstSerial = e.N
				}
				p.lastSerial = e.N
			}
		case "write.end":
			if w := pend[e.A]; w != nil {
				w.end = e.Seq
				h.writes = append(h.writes, *w)
				delete(pend, e.A)
			}
		case "rd.add.call":
			r := &w1RdSess{name: e.A, path: e.B, addCall: e.Seq, addCallT: e.T, skip: e.N == 1}
			h.rds = append(h.rds, r)
			h.rdByNm[e.A] = r
		case "rd.add.ret":
			if r := h.rdByNm[e.A]; r != nil {
				r.addRet = e.Seq
				r.addRetT = e.T
				r.ok = e.N == 1
				r.pathObj = e.M
				r.streamObj = e.K
			}
		case "rd.add.err":
			if r := h.rdByNm[e.A]; r != nil {
				r.errText = e.B
			}
		case "rd.conf":
			if r := h.rdByNm[e.A]; r != nil {
				r.maxReaders = e.N
			}
		case "rd.sadd.ret":
			if r := h.rdByNm[e.A]; r != nil {
				r.saddRet = e.Seq
			}
		case "rd.close":
			if r := h.rdByNm[e.A]; r != nil {
				r.nclose++
				r.closeSeqs = append(r.closeSeqs, e.Seq)
				if r.closeSeq == 0 {
					r.closeSeq = e.Seq
					r.closeT = e.T
				}
			}
		case "rd.srem.call":
			if r := h.rdByNm[e.A]; r != nil {
				r.sremCall = e.Seq
			}
		case "rd.srem.ret":
			if r := h.rdByNm[e.A]; r != nil {
				r.sremRet = e.Seq
				r.discarded = e.N
			}
		case "rd.premove.call":
			if r := h.rdByNm[e.A]; r != nil {
				r.premoveCall = e.Seq
				r.premoveCallT = e.T
			}
		case "rd.premove.ret":
			if r := h.rdByNm[e.A]; r != nil {
				r.premoveRet = e.Seq
			}
		case "rd.data":
			if r := h.rdByNm[e.A]; r != nil {
				r.datas = append(r.datas, e)
			}
		case "rd.filler":
			if r := h.rdByNm[e.A]; r != nil {
				r.fillers = append(r.fillers, e.Seq)
			}
		case "rd.err":
			if r := h.rdByNm[e.A]; r != nil {
				r.errSeq = e.Seq
			}
		case "rd.readd.call":
			if r := h.rdByNm[e.A]; r != nil {
				r.readds = append(r.readds, [3]int64{e.Seq, 0, 0})
			}
		case "rd.readd.ret":
			if r := h.rdByNm[e.A]; r != nil && len(r.readds) > 0 {
				x := &r.readds[len(r.readds)-1]
				x[1] = e.Seq
				if strings.Contains(e.B, "maximum reader count") {
					x[2] = 1
				}
			}
		case "reload.call":
			h.reloads = append(h.reloads, [3]int64{e.Seq, 0, e.N})
			curReload = &h.reloads[len(h.reloads)-1]
		case "reload.ret":
			if curReload != nil {
				curReload[1] = e.Seq
			}
		}
	}
	for _, w := range pend {
		ww := *w
		ww.end = w1Inf
		h.writes = append(h.writes, ww)
	}
	for i := range h.writes {
		w := &h.writes[i]
		h.wrIndex[[2]int64{w.pub, w.serial}] = w
	}
	return h
}

type w1Viol struct {
	out  []simrt.Violation
	seen map[string]bool
}

func (v *w1Viol) add(prop, clause, format string, args ...any) {
	d := fmt.Sprintf(format, args...)
	k := prop + clause + d
	if v.seen[k] {
		return
	}
	v.seen[k] = true
	if len(v.out) < 20 {
		v.out = append(v.out, simrt.Violation{Property: prop, Clause: clause, Detail: d})
	}
}

// versionAt returns the configuration version in force at the path manager
// during the whole interval [from,to], or -1 when a reload overlaps it.
func (h *w1Hist) versionAt(from, to int64) int64 {
	v := int64(0)
	for _, r := range h.reloads {
		call, ret := r[0], r[1]
		if ret == 0 {
			ret = w1Inf
		}
		if ret < from {
			v = r[2]
			continue
		}
		if call > to {
			break
		}
		return -1
	}
	return v
}

func (h *w1Hist) reloadsBetween(a, b int64) int {
	n := 0
	for _, r := range h.reloads {
		ret := r[1]
		if ret == 0 {
			ret = w1Inf
		}
		if ret >= a && r[0] <= b {
			n++
		}
	}
	return n
}

func w1MinMax(body *w1Body, pick func(p *w1Path) int64) (min, max int64) {
	min, max = w1Inf, 0
	for vi := range body.Versions {
		for pi := range body.Versions[vi].Paths {
			x := pick(&body.Versions[vi].Paths[pi])
			if x < min {
				min = x
			}
			if x > max {
				max = x
			}
		}
	}
	return
}

func w1Oracles(body *w1Body, res *simrt.Result, cfg simrt.Config) []simrt.Violation {
	h := w1Parse(res.History)
	v := &w1Viol{seen: map[string]bool{}}
	completed := h.last["shutdown.ret"] > 0
	schedClean := len(res.Violations) == 0

	w1C03(h, body, v)
	w1C16(h, body, v)
	w1C17(h, body, v)
	w1C18(h, body, v)
	w1C19(h, body, v, cfg, completed, schedClean, res)
	w1C20(h, body, v, completed)
	w1C39(h, body, v, completed)
	return v.out
}

// ---- C03

func w1C03(h *w1Hist, body *w1Body, v *w1Viol) {
	// index auth events
	type authEv struct {
		seq      int64
		id, cred string
		path     string
		act, ok  int64
	}
	var auths []authEv
	for _, e := range h.ev {
		if e.Kind == "auth" {
			parts := strings.SplitN(e.A, "|", 2)
			a := authEv{seq: e.Seq, id: parts[0], path: e.B, act: e.N, ok: e.M}
			if len(parts) > 1 {
				a.cred = parts[1]
			}
			auths = append(auths, a)
		}
	}
	cred := map[string]string{} // actor base name -> "user|pass|ip"
	for i, a := range body.Actors {
		k := ""
		switch a.Kind {
		case "pub":
			k = fmt.Sprintf("pub%d", i)
		case "rd":
			k = fmt.Sprintf("rd%d", i)
		}
		if k != "" {
			cred[k] = a.User + "|" + a.Pass + "|" + w1NormIP(a.IP)
		}
	}
	justified := func(from, to int64, path string, act int64, wantCred string) bool {
		for _, a := range auths {
			if a.seq > from && a.seq < to && a.path == path && a.act == act && a.ok == 1 && a.cred == wantCred {
				return true
			}
		}
		return false
	}
	for _, p := range h.pubs {
		if !p.ok || strings.HasPrefix(p.name, "dpub") {
			continue
		}
		from, to := p.addCall, p.addRet
		if p.skip {
			from, to = p.findCall, p.findRet
			if !p.findOK {
				v.add("C03", "attach-without-authorization", "publisher %s attached to %q without an admitted authorization phase", p.name, p.path)
				continue
			}
		}
		pbase := p.name
		if i := strings.Index(pbase, "."); i > 0 {
			pbase = pbase[:i]
		}
		if !justified(from, to, p.path, 1, cred[pbase]) {
			v.add("C03", "attach-without-authorization",
				"publisher %s attached to %q but the authentication manager never admitted %q for publish on exactly that name in its flow (seq %d..%d)",
				p.name, p.path, cred[pbase], from, to)
		}
	}
	for _, r := range h.rds {
		if !r.ok || r.skip {
			continue
		}
		base := r.name
		if i := strings.Index(base, "."); i > 0 {
			base = base[:i]
		}
		if !justified(r.addCall, r.addRet, r.path, 0, cred[base]) {
			v.add("C03", "attach-without-authorization",
				"reader %s attached to %q but the authentication manager never admitted %q for read on exactly that name in its flow (seq %d..%d)",
				r.name, r.path, cred[base], r.addCall, r.addRet)
		}
	}
	// a publisher is attached only if the configuration it was authorized
	// against is still in force: definite case only (no reload overlaps either phase)
	confEq := map[string]bool{}
	for _, e := range h.ev {
		if e.Kind == "confeq" {
			confEq[fmt.Sprintf("%s|%d|%d", e.A, e.N, e.M)] = e.K == 1
		}
	}
	for _, p := range h.pubs {
		if !p.ok || !p.skip || !p.findOK {
			continue
		}
		vf := h.versionAt(p.findCall, p.findRet)
		va := h.versionAt(p.addCall, p.addRet)
		if vf < 0 || va < 0 || vf == va {
			continue
		}
		eq, known := confEq[fmt.Sprintf("%s|%d|%d", p.path, vf, va)]
		if known && !eq {
			v.add("C03", "stale-authorization",
				"publisher %s was authorized on %q under configuration version %d, the configuration resolved for that name changed (version %d) before it asked to attach, and it was attached anyway",
				p.name, p.path, vf, va)
		}
	}
}

func w1NormIP(s string) string {
	if s == "" {
		return "<nil>"
	}
	return s
}

// completion returns the sequence number at which the removal or replacement
// of publisher session p is known to be complete: the return of its own
// RemovePublisher when the path never closed it (the path processed the
// request), otherwise the response to the next publisher admitted on the same
// name after the path closed p. Inf when unknown.
func (h *w1Hist) completion(p *w1PubSess) int64 {
	c := w1Inf
	if p.closeSeq == 0 {
		if p.removeRet > 0 {
			c = p.removeRet
		}
		return c
	}
	// the path closes a publisher while it handles the add request of a rival, and answers that
	// request (accepted or refused) only after the removal: when exactly one add request on the
	// path is outstanding at the close, its response marks the completion
	var trigger *w1PubSess
	ntrig := 0
	for _, q := range h.pubs {
		if q != p && q.path == p.path && q.addCall > 0 && q.addCall < p.closeSeq && q.addRet > p.closeSeq {
			// (a refusal decided before anybody is closed - "someone is already publishing",
			// an authentication failure, no configuration - is not the request that closed p,
			// and the close may come from a reload or the removal of the path instead)
			if q.ok || strings.Contains(q.addErr, "wants to publish") {
				trigger = q
			}
			ntrig++
		}
	}
	if ntrig == 1 && trigger != nil {
		return trigger.addRet
	}
	for _, q := range h.pubs {
		if q != p && q.ok && q.path == p.path && q.addRet > p.closeSeq && q.addRet < c {
			c = q.addRet
		}
	}
	return c
}

// ---- C16

func w1C16(h *w1Hist, body *w1Body, v *w1Viol) {
	oks := []*w1PubSess{}
	for _, p := range h.pubs {
		if p.ok {
			oks = append(oks, p)
		}
	}
	// (a) two publishers definitely attached to the same path name at once
	for i, p := range oks {
		for _, q := range oks[i+1:] {
			if p.path != q.path {
				continue
			}
			ps, pe := p.addRet, p.defEnd()
			qs, qe := q.addRet, q.defEnd()
			if ps >= pe || qs >= qe {
				continue
			}
			lo, hi := ps, pe
			if qs > lo {
				lo = qs
			}
			if qe < hi {
				hi = qe
			}
			if lo < hi {
				v.add("C16", "two-publishers",
					"publishers %s and %s are both attached to path %q during seq [%d,%d): neither had been closed or had asked to leave",
					p.name, q.name, p.path, lo, hi)
			}
		}
	}
	// (b) data written by a replaced / removed publisher after the completion of
	// its replacement / removal must not reach a reader that is attached and not closed
	for _, p := range oks {
		c := h.completion(p)
		if c == w1Inf {
			continue
		}
		for _, r := range h.rds {
			for _, d := range r.datas {
				w := h.wrIndex[[2]int64{d.K, d.N}]
				if w == nil || w.who != p.name || w.begin < p.addRet || (p.removeCall > 0 && w.begin > p.removeCall) {
					continue // not a write of this session
				}
				if w.begin > c && d.Seq < r.defEnd() {
					v.add("C16", "stale-data",
						"unit %d of publisher %s, whose write began (seq %d) after the completion of its replacement/removal (seq %d), reached reader %s (seq %d), which was attached and not closed",
						w.serial, p.name, w.begin, c, r.name, d.Seq)
				}
			}
		}
	}
	// (c) a reader's queue is first-in first-out, and whatever a publisher let into the stream
	// legitimately entered it before the completion of its replacement/removal: once a reader has
	// received a unit whose write began after that completion (so, from a successor), a unit of
	// the replaced publisher reaching it was let into the stream afterwards
	byName := map[string]*w1PubSess{}
	for _, p := range oks {
		byName[p.name] = p
	}
	for _, r := range h.rds {
		latestBegin := map[*w1PubSess]int64{} // per session: latest write begin among the units r received so far
		latestUnit := map[*w1PubSess]int64{}
	deliveries:
		for _, d := range r.datas {
			w := h.wrIndex[[2]int64{d.K, d.N}]
			if w == nil {
				continue
			}
			p := byName[w.who]
			if p == nil || p.path != r.path {
				continue
			}
			if c := h.completion(p); c != w1Inf {
				for q, bq := range latestBegin {
					if q != p && bq > c {
						v.add("C16", "stale-data-after-successor",
							"reader %s received unit %d of publisher %s after unit %d of publisher %s, whose write began (seq %d) after the replacement/removal of %s had completed (seq %d)",
							r.name, w.serial, p.name, latestUnit[q], q.name, bq, p.name, c)
						break deliveries
					}
				}
			}
			if w.begin > latestBegin[p] {
				latestBegin[p], latestUnit[p] = w.begin, w.serial
			}
		}
	}
	// (d) always-available streams: the offline filler runs only while nobody publishes, and it is
	// started after a publisher has been cut off: a unit of a publisher that reaches a reader
	// after a filler unit that itself followed units of that publisher entered the stream after
	// the publisher had been replaced or removed
	for _, r := range h.rds {
		if len(r.fillers) == 0 {
			continue
		}
		first := map[*w1PubSess]int64{} // seq of the first unit of the session received by r
		fi := 0
	units:
		for _, d := range r.datas {
			w := h.wrIndex[[2]int64{d.K, d.N}]
			if w == nil {
				continue
			}
			p := byName[w.who]
			if p == nil || p.path != r.path {
				continue
			}
			f0, seen := first[p]
			if !seen {
				first[p] = d.Seq
				continue
			}
			for fi < len(r.fillers) && r.fillers[fi] < f0 {
				fi++
			}
			for j := fi; j < len(r.fillers) && r.fillers[j] < d.Seq; j++ {
				if r.fillers[j] > f0 {
					v.add("C16", "stale-data-after-filler",
						"reader %s received unit %d of publisher %s (seq %d) after a filler unit of the offline stream (seq %d) that followed earlier units of %s (first at seq %d): the filler only runs once the publisher has been cut off",
						r.name, w.serial, p.name, d.Seq, r.fillers[j], p.name, f0)
					break units
				}
			}
		}
	}
}

// ---- C17

func w1C17(h *w1Hist, body *w1Body, v *w1Viol) {
	// "units written by the current publisher": a unit of a replaced publisher that reaches a
	// reader after its successor's (or after the offline filler that followed it) is not one
	tmp := &w1Viol{seen: map[string]bool{}}
	w1C16(h, body, tmp)
	for _, x := range tmp.out {
		if strings.HasPrefix(x.Clause, "stale-data-after-") {
			v.add("C17", "unit-of-replaced-publisher", "%s", x.Detail)
		}
	}
	subs := map[string]map[int64]bool{}
	for i, a := range body.Actors {
		if a.Kind == "rd" {
			m := map[int64]bool{}
			for _, f := range a.Formats {
				m[int64(f)] = true
			}
			subs[fmt.Sprintf("rd%d", i)] = m
		}
	}
	for _, r := range h.rds {
		if !r.ok {
			continue
		}
		base := r.name
		if i := strings.Index(base, "."); i > 0 {
			base = base[:i]
		}
		sub := subs[base]
		lastSerial := map[[2]int64]int64{}
		seen := map[[3]int64]bool{}
		var writer string
		for _, d := range r.datas {
			if r.sremRet > 0 && d.Seq > r.sremRet {
				v.add("C17", "callback-after-removal", "reader %s received unit %d (seq %d) after RemoveReader had returned (seq %d)", r.name, d.N, d.Seq, r.sremRet)
			}
			if sub != nil && !sub[d.M] {
				v.add("C17", "unsubscribed-format", "reader %s received a unit of format %d it did not subscribe to", r.name, d.M)
			}
			k := [2]int64{d.K, d.M}
			if prev, ok := lastSerial[k]; ok && d.N <= prev {
				if seen[[3]int64{d.K, d.M, d.N}] {
					v.add("C17", "duplicate-unit", "reader %s received unit %d of writer %d format %d twice", r.name, d.N, d.K, d.M)
				} else {
					v.add("C17", "out-of-order", "reader %s received unit %d after unit %d (writer %d, format %d)", r.name, d.N, prev, d.K, d.M)
				}
			}
			lastSerial[k] = d.N
			seen[[3]int64{d.K, d.M, d.N}] = true
			w := h.wrIndex[[2]int64{d.K, d.N}]
			if w == nil {
				v.add("C17", "unwritten-unit", "reader %s received unit %d of writer %d that was never written", r.name, d.N, d.K)
				continue
			}
			if w.begin > d.Seq {
				v.add("C17", "unwritten-unit", "reader %s received unit %d (seq %d) before its write began (seq %d)", r.name, d.N, d.Seq, w.begin)
			}
			writer = w.who
		}
		if writer == "" || r.sremRet == 0 || w1Always(body, r.path) {
			continue
		}
		// conservation. Interior gaps: units of a subscribed format written by the
		// same writer between two delivered units were pushed while the reader
		// was registered, so each is a counted discard.
		first := map[int64]int64{}
		lastD := map[int64]int64{}
		delivered := map[[2]int64]bool{}
		for _, d := range r.datas {
			if _, ok := first[d.M]; !ok {
				first[d.M] = d.N
			}
			lastD[d.M] = d.N
			delivered[[2]int64{d.M, d.N}] = true
		}
		gaps, maybe := int64(0), int64(0)
		for i := range h.writes {
			w := &h.writes[i]
			if w.who != writer || (sub != nil && !sub[w.fm]) {
				continue
			}
			if f, ok := first[w.fm]; ok && w.serial > f && w.serial < lastD[w.fm] && !delivered[[2]int64{w.fm, w.serial}] {
				gaps++
			}
			if w.end > r.addRet && w.begin < r.sremRet {
				maybe++
			}
		}
		nd := int64(len(r.datas))
		if r.discarded < gaps {
			v.add("C17", "uncounted-drop",
				"reader %s missed %d units between units it did receive but its discard counter is %d", r.name, gaps, r.discarded)
		}
		if r.discarded > maybe-nd {
			v.add("C17", "phantom-drop",
				"reader %s counts %d discarded units but only %d units were written while it could be registered and %d were delivered", r.name, r.discarded, maybe, nd)
		}
		if r.discarded > 0 && maybe <= int64(body.QueueSize) {
			v.add("C17", "drop-without-full-queue",
				"reader %s counts %d discarded units although at most %d units were written to it and its queue holds %d", r.name, r.discarded, maybe, body.QueueSize)
		}
	}
}

// w1Always reports whether the name can belong to an always-available path in some version of the run:
// its stream outlives publishers (an offline filler takes over), so "the stream went away" clauses and the
// per-writer conservation of C17 do not apply to it.
func w1Always(body *w1Body, name string) bool {
	for i := range body.Versions {
		if p := w1Resolve(&body.Versions[i], name); p != nil && p.Always {
			return true
		}
	}
	return false
}

// ---- C18

func w1C18(h *w1Hist, body *w1Body, v *w1Viol) {
	byPath := map[int64][]*w1RdSess{}
	for _, r := range h.rds {
		if r.ok && r.pathObj != 0 {
			byPath[r.pathObj] = append(byPath[r.pathObj], r)
		}
		// a second request of the same reader that is in flight when the path closes it
		// attaches it again: every such request accounts for one more legitimate close
		extra := 0
		for _, x := range r.readds {
			for _, cs := range r.closeSeqs {
				if cs > x[0] && (x[1] == 0 || cs < x[1]) {
					extra++
					break
				}
			}
		}
		if r.nclose > 1+extra {
			v.add("C18", "closed-twice", "reader %s was closed %d times during one attachment", r.name, r.nclose)
		}
		for _, x := range r.readds {
			if x[2] == 1 && x[1] > 0 && x[1] < r.defEnd() {
				v.add("C18", "duplicate-counted", "reader %s, already attached, was refused with 'maximum reader count reached' when it asked again", r.name)
			}
		}
	}
	keys := make([]int64, 0, len(byPath))
	for k := range byPath {
		keys = append(keys, k)
	}
	sort.Slice(keys, func(a, b int) bool { return keys[a] < keys[b] })
	for _, k := range keys {
		rs := byPath[k]
		m := rs[0].maxReaders
		if m == 0 {
			continue
		}
		type pt struct {
			seq int64
			d   int
		}
		var pts []pt
		for _, r := range rs {
			s, e := r.addRet, r.defEnd()
			if s < e {
				pts = append(pts, pt{s, 1}, pt{e, -1})
			}
		}
		sort.Slice(pts, func(a, b int) bool {
			if pts[a].seq != pts[b].seq {
				return pts[a].seq < pts[b].seq
			}
			return pts[a].d < pts[b].d
		})
		n := 0
		for _, p := range pts {
			n += p.d
			if int64(n) > m {
				v.add("C18", "too-many-readers", "path %q (instance %d) has %d readers attached at seq %d, maxReaders is %d", rs[0].path, k, n, p.seq, m)
				break
			}
		}
	}
	// API view: an unavailable path lists no reader; a path never lists more than maxReaders
	maxByConf := map[string][2]int64{}
	for vi := range body.Versions {
		for _, p := range body.Versions[vi].Paths {
			mm, ok := maxByConf[p.Name]
			x := int64(p.MaxReaders)
			if !ok {
				maxByConf[p.Name] = [2]int64{x, x}
			} else {
				if x < mm[0] {
					mm[0] = x
				}
				if x > mm[1] {
					mm[1] = x
				}
				maxByConf[p.Name] = mm
			}
		}
	}
	for _, e := range h.ev {
		if e.Kind != "api.path" {
			continue
		}
		if e.M == 0 && e.N > 0 {
			v.add("C18", "reader-on-unavailable-path", "the API lists %d readers on path %q while its stream is not available", e.N, e.A)
		}
		cn := strings.SplitN(e.B, "|", 2)[0]
		if mm, ok := maxByConf[cn]; ok && mm[0] == mm[1] && mm[0] > 0 && e.N > mm[0] {
			v.add("C18", "too-many-readers", "the API lists %d readers on path %q, maxReaders is %d", e.N, e.A, mm[0])
		}
	}
	// teardown: a reader that received data from publisher session X and did not
	// leave by itself before the completion of X's removal/replacement must have
	// been closed before that completion
	for _, p := range h.pubs {
		if !p.ok || w1Always(body, p.path) {
			continue
		}
		c := h.completion(p)
		if c == w1Inf {
			continue
		}
		for _, r := range h.rds {
			if !r.ok || len(r.datas) == 0 {
				continue
			}
			w := h.wrIndex[[2]int64{r.datas[0].K, r.datas[0].N}]
			if w == nil || w.who != p.name || w.begin < p.addRet || (p.removeCall > 0 && w.begin > p.removeCall) {
				continue
			}
			if r.premoveCall > 0 && r.premoveCall < c {
				continue
			}
			if r.closeSeq == 0 || r.closeSeq > c {
				v.add("C18", "reader-not-closed",
					"reader %s was attached to the stream of publisher %s and was not closed when that stream went away (publisher removal completed at seq %d, reader closed at seq %d)",
					r.name, p.name, c, r.closeSeq)
			}
		}
	}
	w1C18Destroy(h, v)
}

// w1C18Destroy: teardown by destruction of the path (reload that re-creates it, removal of its
// entry, shutdown), publisher or not: a reader that was attached when the path announced its
// destruction and had not asked to leave must have been closed before that announcement.
// The clause only looks at what precedes each announcement, so it is also evaluated on runs
// that ended at the step cap (a path that leaves its readers attached to a stream nobody
// closes keeps the offline filler of an always-available stream running for ever).
func w1C18Destroy(h *w1Hist, v *w1Viol) {
	for _, e := range h.logs {
		pn, msg, ok := w1PathOfLog(e.A)
		if !ok || !strings.HasPrefix(msg, "destroyed") {
			continue
		}
		for _, r := range h.rds {
			if !r.ok || r.path != pn || r.addRet == 0 || r.addRet > e.Seq {
				continue
			}
			if r.premoveCall > 0 && r.premoveCall < e.Seq {
				continue
			}
			// (the path may close a reader it has just attached before the reader's own
			// goroutine has seen the answer to its request: count from the request on)
			closed := false
			for _, cs := range r.closeSeqs {
				if cs > r.addCall && cs < e.Seq {
					closed = true
				}
			}
			if r.closeSeq > r.addCall && r.closeSeq < e.Seq {
				closed = true
			}
			if !closed {
				v.add("C18", "reader-not-closed-on-destroy", "reader %s was attached to path %q (since seq %d) when the path was destroyed (seq %d) and was never closed by it", r.name, pn, r.addRet, e.Seq)
			}
		}
	}
}

// ---- C19

func w1PathOfLog(msg string) (string, string, bool) {
	if !strings.HasPrefix(msg, "[path ") {
		return "", "", false
	}
	i := strings.Index(msg, "] ")
	if i < 0 {
		return "", "", false
	}
	return msg[6:i], msg[i+2:], true
}

// confsFor returns the path specs (over all versions) that can govern name.
func w1ConfsFor(body *w1Body, name string) []*w1Path {
	var out []*w1Path
	for vi := range body.Versions {
		for pi := range body.Versions[vi].Paths {
			p := &body.Versions[vi].Paths[pi]
			if p.Name == name || strings.HasPrefix(p.Name, "~") || p.Name == "all_others" {
				out = append(out, p)
			}
		}
	}
	return out
}

func w1C19(h *w1Hist, body *w1Body, v *w1Viol, cfg simrt.Config, completed, schedClean bool, res *simrt.Result) {
	stuck := false
	for _, sv := range res.Violations {
		if sv.Clause == "stuck" || sv.Clause == "goroutine-leak" {
			stuck = true
		}
	}
	// every held request is answered (exactly once: a second answer blocks the path)
	if stuck || (schedClean && !completed) {
		for _, r := range h.rds {
			if r.addCall > 0 && r.addRet == 0 {
				v.add("C19", "unanswered", "read request of %s on %q (seq %d) never received a response", r.name, r.path, r.addCall)
			}
		}
		open := map[string]int64{}
		for _, e := range h.ev {
			switch e.Kind {
			case "desc.call":
				open[e.A] = e.Seq
			case "desc.ret":
				delete(open, e.A)
			}
		}
		names := make([]string, 0, len(open))
		for k := range open {
			names = append(names, k)
		}
		sort.Strings(names)
		for _, k := range names {
			v.add("C19", "unanswered", "describe request of %s (seq %d) never received a response", k, open[k])
		}
		for _, sv := range res.Violations {
			if sv.Clause == "stuck" && strings.Contains(sv.Detail, ":send") && strings.Contains(sv.Detail, "core/path.go") {
				v.add("C19", "answered-twice-or-blocked", "the path actor is blocked forever while sending a response:\n%s", sv.Detail)
			}
		}
	}

	type span struct {
		startSeq, endSeq int64
		startT, endT     time.Duration
		reason           string
	}
	srcSpans := map[string][]*span{} // per path name: on-demand source episodes
	cmdSpans := map[string][]*span{}
	availAt := map[string][]simrt.Ev{}
	for _, e := range h.logs {
		p, msg, ok := w1PathOfLog(e.A)
		if !ok {
			continue
		}
		switch {
		case strings.HasPrefix(msg, "[SIM source] started"):
			ss := srcSpans[p]
			if len(ss) > 0 && ss[len(ss)-1].endSeq == 0 {
				v.add("C19", "source-overlap", "source of path %q started (seq %d) while a previous instance had not been stopped", p, e.Seq)
			}
			sp := &span{startSeq: e.Seq, startT: e.T, reason: msg}
			srcSpans[p] = append(ss, sp)
		case strings.HasPrefix(msg, "[SIM source] stopped: "):
			ss := srcSpans[p]
			if len(ss) == 0 || ss[len(ss)-1].endSeq != 0 {
				v.add("C19", "source-overlap", "source of path %q stopped (seq %d) without being started", p, e.Seq)
				continue
			}
			sp := ss[len(ss)-1]
			sp.endSeq, sp.endT = e.Seq, e.T
			sp.reason = strings.TrimPrefix(msg, "[SIM source] stopped: ")
		case msg == "runOnDemand command started":
			cmdSpans[p] = append(cmdSpans[p], &span{startSeq: e.Seq, startT: e.T})
		case strings.HasPrefix(msg, "runOnDemand command stopped: "):
			cs := cmdSpans[p]
			if len(cs) > 0 && cs[len(cs)-1].endSeq == 0 {
				cs[len(cs)-1].endSeq, cs[len(cs)-1].endT = e.Seq, e.T
				cs[len(cs)-1].reason = strings.TrimPrefix(msg, "runOnDemand command stopped: ")
			}
		case strings.HasPrefix(msg, "stream is available"):
			availAt[p] = append(availAt[p], e)
		}
	}
	minOf := func(name string, pick func(*w1Path) int64) int64 {
		m := w1Inf
		for _, p := range w1ConfsFor(body, name) {
			if x := pick(p); x < m {
				m = x
			}
		}
		return m
	}
	maxOf := func(name string, pick func(*w1Path) int64) int64 {
		m := int64(0)
		for _, p := range w1ConfsFor(body, name) {
			if x := pick(p); x > m {
				m = x
			}
		}
		return m
	}
	pnames := map[string]bool{}
	for p := range srcSpans {
		pnames[p] = true
	}
	for p := range cmdSpans {
		pnames[p] = true
	}
	sorted := make([]string, 0, len(pnames))
	for p := range pnames {
		sorted = append(sorted, p)
	}
	sort.Strings(sorted)
	for _, p := range sorted {
		closeAfter := time.Duration(minOf(p, func(x *w1Path) int64 { return x.CloseAfterMs })) * time.Millisecond
		startTmo := time.Duration(minOf(p, func(x *w1Path) int64 { return x.StartTimeoutMs })) * time.Millisecond
		all := append(append([]*span{}, srcSpans[p]...), cmdSpans[p]...)
		for _, sp := range all {
			if sp.endSeq == 0 {
				continue
			}
			switch sp.reason {
			case "timed out":
				if sp.endT-sp.startT < startTmo {
					v.add("C19", "early-timeout", "on-demand source of path %q was declared timed out %s after its start, start timeout is at least %s", p, sp.endT-sp.startT, startTmo)
				}
				// a start timeout can only expire if the stream did not become ready
				// during the whole timeout that precedes the expiry
				for _, a := range availAt[p] {
					// a stream created for a publisher that the path then refused (and taken down again
					// at once) never was "ready" for anybody: the demand goes on waiting
					refused := false
					for _, ps := range h.pubs {
						if ps.path == p && !ps.ok && ps.addCall < a.Seq && a.Seq < ps.addRet {
							refused = true
						}
					}
					if refused {
						continue
					}
					if a.Seq > sp.startSeq && a.Seq < sp.endSeq && a.T > sp.endT-startTmo {
						v.add("C19", "timeout-after-ready", "on-demand source of path %q was stopped as 'timed out' at %s although its stream had become available at %s, less than the start timeout (%s) earlier", p, sp.endT, a.T, startTmo)
					}
				}
			case "not needed by anyone":
				for _, r := range h.rds {
					if !r.ok || r.path != p || r.addRet > sp.endSeq {
						continue
					}
					var endT time.Duration
					switch {
					case r.closeSeq > 0 && (r.premoveCall == 0 || r.closeSeq < r.premoveCall):
						endT = r.closeT
					case r.premoveCall > 0:
						endT = r.premoveCallT
					default:
						v.add("C19", "idle-stop-with-reader", "on-demand source of path %q was stopped as not needed (seq %d) while reader %s was attached", p, sp.endSeq, r.name)
						continue
					}
					if endT+closeAfter > sp.endT && r.addRet > sp.startSeq {
						v.add("C19", "idle-stop-too-early",
							"on-demand source of path %q was stopped as not needed at %s, only %s after reader %s was still attached (close delay is at least %s)",
							p, sp.endT, sp.endT-endT, r.name, closeAfter)
					}
				}
			}
		}
	}
	// timed-out responses only after the start timeout
	for _, r := range h.rds {
		if r.addRet == 0 || r.ok || !strings.Contains(r.errText, "has timed out") {
			continue
		}
		// the response is sent by the expiry that also stops the demand as "timed out"
		// (whose duration is checked above); the reader records it later
		found := false
		for _, sp := range append(append([]*span{}, srcSpans[r.path]...), cmdSpans[r.path]...) {
			// (the expiry answers the held requests first and logs the stop afterwards,
			// so the reader may record the response before the stop is logged)
			if sp.reason == "timed out" && sp.endSeq > r.addCall && sp.startSeq < r.addRet {
				found = true
			}
		}
		if !found {
			v.add("C19", "timeout-without-demand", "reader %s got 'timed out' on %q but no on-demand start of that path timed out while its request was pending (seq %d..%d)", r.name, r.path, r.addCall, r.addRet)
		}
	}
	// a read request that succeeds was given a stream that had become ready: on a path fed by
	// publishers only (never always-available, never a pulled source, in any configuration
	// version) some publisher must have been admitted before the response and not have been
	// gone before the request was made
	for _, r := range h.rds {
		if !r.ok || r.addRet == 0 || r.skip {
			continue
		}
		onlyPublishers := true
		cs := w1ConfsFor(body, r.path)
		for _, c := range cs {
			if c.Source != "publisher" || c.Always {
				onlyPublishers = false
			}
		}
		if !onlyPublishers || len(cs) == 0 {
			continue
		}
		fed := false
		for _, ps := range h.pubs {
			if ps.path != r.path || !ps.ok {
				continue
			}
			if ps.addCall < r.addRet && (ps.removeRet == 0 || ps.removeRet > r.addCall) {
				fed = true
			}
		}
		if !fed {
			v.add("C19", "success-without-source", "read request of %s on %q (seq %d..%d) was answered with a stream although no publisher was attached to that path between the request and its answer", r.name, r.path, r.addCall, r.addRet)
		}
	}
	// bounded liveness, only in runs where the scheduler never stalled runnable goroutines
	if cfg.StallProb == 0 && completed {
		for _, r := range h.rds {
			if r.addRet == 0 {
				continue
			}
			bound := time.Duration(maxOf(r.path, func(x *w1Path) int64 { return x.StartTimeoutMs }))*time.Millisecond + 12*time.Second
			if r.addRetT-r.addCallT > bound {
				v.add("C19", "late-response", "read request of %s on %q was answered after %s, bound is %s", r.name, r.path, r.addRetT-r.addCallT, bound)
			}
		}
		ep := h.last["epilogue"]
		for _, p := range sorted {
			for _, sp := range srcSpans[p] {
				if strings.Contains(sp.reason, "on demand") && sp.endSeq == 0 && sp.startSeq < ep {
					v.add("C19", "demand-never-stopped", "on-demand source of path %q (started at seq %d) is still running long after the last reader left", p, sp.startSeq)
				}
			}
			for _, sp := range cmdSpans[p] {
				if sp.endSeq == 0 && sp.startSeq < ep {
					v.add("C19", "demand-never-stopped", "runOnDemand command of path %q (started at seq %d) is still running long after the last reader left", p, sp.startSeq)
				}
			}
		}
	}
}

// ---- C20

func w1C20(h *w1Hist, body *w1Body, v *w1Viol, completed bool) {
	type inst struct {
		path string
		seqs []string // per pair: sequence of tokens
	}
	pairs := []struct{ name, start, stop, launch string }{
		{"available", "runOnAvailable command started", "runOnAvailable command stopped", "runOnUnavailable command launched"},
		{"online", "runOnOnline command started", "runOnOnline command stopped", "runOnOffline command launched"},
		{"demand", "runOnDemand command started", "runOnDemand command stopped", "runOnUnDemand command launched"},
		{"init", "runOnInit command started", "runOnInit command stopped", "\x00"},
	}
	type state struct {
		tokens [4][]byte
		open   bool
	}
	cur := map[string]*state{}
	check := func(p string, st *state, final bool, seq int64) {
		for i, pr := range pairs {
			tk := string(st.tokens[i])
			// grammar: (S (T L?)?)* with L consistent; a lone L stream (no start command configured) is accepted
			if !strings.Contains(tk, "S") {
				continue
			}
			lCount := strings.Count(tk, "L")
			j := 0
			okk := true
			for j < len(tk) && okk {
				if tk[j] != 'S' {
					okk = false
					break
				}
				j++
				if j < len(tk) && tk[j] == 'T' {
					j++
					if j < len(tk) && tk[j] == 'L' {
						j++
					} else if lCount > 0 {
						okk = false
					}
				} else if j < len(tk) {
					okk = false
				}
			}
			if !okk {
				v.add("C20", "pair-order", "path %q: %s hooks fired in the order %q (S=start hook started, T=start hook stopped, L=stop hook launched)", p, pr.name, tk)
			}
			if final && strings.HasSuffix(tk, "S") {
				v.add("C20", "pair-left-open", "path %q was destroyed (seq %d) with its %s hook pair still open (%q)", p, seq, pr.name, tk)
			}
		}
	}
	for _, e := range h.logs {
		p, msg, ok := w1PathOfLog(e.A)
		if !ok {
			continue
		}
		if msg == "created" {
			cur[p] = &state{open: true}
			continue
		}
		st := cur[p]
		if st == nil {
			continue
		}
		if strings.HasPrefix(msg, "destroyed") {
			check(p, st, true, e.Seq)
			delete(cur, p)
			continue
		}
		for i, pr := range pairs {
			switch {
			case msg == pr.start:
				st.tokens[i] = append(st.tokens[i], 'S')
			case strings.HasPrefix(msg, pr.stop):
				st.tokens[i] = append(st.tokens[i], 'T')
			case msg == pr.launch:
				st.tokens[i] = append(st.tokens[i], 'L')
			}
		}
	}
	names := make([]string, 0, len(cur))
	for p := range cur {
		names = append(names, p)
	}
	sort.Strings(names)
	for _, p := range names {
		check(p, cur[p], false, 0)
		if completed {
			v.add("C20", "path-not-destroyed", "path %q was never destroyed although shutdown completed", p)
		}
	}
	// every announced hook execution happens
	if completed {
		logCount := map[string]int{}
		procCount := map[string]int{}
		kinds := map[string]string{
			"runOnAvailable command started": "avail", "runOnUnavailable command launched": "unavail",
			"runOnOnline command started": "online", "runOnOffline command launched": "offline",
			"runOnDemand command started": "demand", "runOnUnDemand command launched": "undemand",
			"runOnInit command started": "init",
		}
		for _, e := range h.logs {
			p, msg, ok := w1PathOfLog(e.A)
			if ok {
				if k, ok2 := kinds[msg]; ok2 {
					logCount[k+"|"+p]++
				}
			}
		}
		for _, e := range h.ev {
			if e.Kind == "proc.start" {
				procCount[e.A+"|"+e.B]++
			}
		}
		ks := make([]string, 0, len(logCount))
		for k := range logCount {
			ks = append(ks, k)
		}
		sort.Strings(ks)
		for _, k := range ks {
			if procCount[k] < logCount[k] {
				v.add("C20", "hook-not-executed", "hook %s was announced %d times but executed %d times", k, logCount[k], procCount[k])
			}
		}
	}
}

// ---- C39

func w1C39(h *w1Hist, body *w1Body, v *w1Viol, completed bool) {
	// per path instance: handler start/stop alternation from the handlers' own log lines
	type hstate struct {
		running map[string]bool
	}
	cur := map[string]*hstate{}
	pubByRemoveCall := map[int64]*w1PubSess{}
	pubByRemoveRet := map[int64]*w1PubSess{}
	for _, p := range h.pubs {
		if p.ok && p.removeRet > 0 && p.closeSeq == 0 {
			pubByRemoveCall[p.removeCall] = p
			pubByRemoveRet[p.removeRet] = p
		}
	}
	// forwarders running when the source publisher asked to leave must all have been
	// stopped by the time its removal completed (the stream is unavailable then);
	// forwarders started in between belong to a later stream.
	mustStop := map[*w1PubSess]map[string]bool{}
	for _, e := range h.ev {
		if e.Kind == "pub.remove.call" {
			if ps := pubByRemoveCall[e.Seq]; ps != nil && !w1Always(body, ps.path) {
				if st := cur[ps.path]; st != nil {
					m := map[string]bool{}
					for id, r := range st.running {
						if r {
							m[id] = true
						}
					}
					mustStop[ps] = m
				}
			}
			continue
		}
		if e.Kind == "pub.remove.ret" {
			if ps := pubByRemoveRet[e.Seq]; ps != nil {
				ids := make([]string, 0)
				for id := range mustStop[ps] {
					ids = append(ids, id)
				}
				sort.Strings(ids)
				for _, id := range ids {
					v.add("C39", "forwarder-while-unavailable", "path %q: forwarder %s was running when publisher %s asked to leave (seq %d) and had not been stopped when the removal completed (seq %d): it runs while the stream is unavailable", ps.path, id, ps.name, ps.removeCall, e.Seq)
				}
				delete(mustStop, ps)
			}
			continue
		}
		if e.Kind != "log" {
			continue
		}
		p, msg, ok := w1PathOfLog(e.A)
		if !ok {
			continue
		}
		if msg == "created" {
			cur[p] = &hstate{running: map[string]bool{}}
			continue
		}
		st := cur[p]
		if st == nil {
			continue
		}
		switch {
		case strings.HasPrefix(msg, "destroyed"):
			ids := make([]string, 0)
			for id, r := range st.running {
				if r {
					ids = append(ids, id)
				}
			}
			sort.Strings(ids)
			for _, id := range ids {
				v.add("C39", "forwarder-left-running", "path %q was destroyed (seq %d) while forwarder %s was still running", p, e.Seq, id)
			}
			delete(cur, p)
		case strings.HasPrefix(msg, "[RTMP dest "):
			j := strings.Index(msg, "] ")
			if j < 0 {
				continue
			}
			id, what := msg[1:j], msg[j+2:]
			switch what {
			case "starting":
				if st.running[id] {
					v.add("C39", "forwarder-started-twice", "path %q: forwarder %s started (seq %d) while already running", p, id, e.Seq)
				}
				st.running[id] = true
			case "stopping":
				if !st.running[id] {
					v.add("C39", "forwarder-stopped-twice", "path %q: forwarder %s stopped (seq %d) while not running", p, id, e.Seq)
				}
				st.running[id] = false
				for ps, m := range mustStop {
					if ps.path == p {
						delete(m, id)
					}
				}
			}
		}
	}
	// identity across reloads: consecutive observations of one path instance with at
	// most one reload in between: same destination at index i => same handler id
	type obs struct {
		seq   int64
		items []string
	}
	lastObs := map[string]*obs{}
	for _, e := range h.ev {
		if e.Kind != "fwd.obs" {
			continue
		}
		key := fmt.Sprintf("%s#%d", e.A, e.N)
		o := &obs{seq: e.Seq}
		if e.B != "" {
			o.items = strings.Split(e.B, ",")
		}
		// positions must be 1..n in order
		for i, it := range o.items {
			f := strings.Split(it, "=")
			if f[0] != fmt.Sprint(i+1) {
				v.add("C39", "fwd-order", "path %q lists forward destination %q at index %d", e.A, it, i)
			}
		}
		if prev := lastObs[key]; prev != nil {
			// Reloads reach a path asynchronously, so any configuration version whose
			// reload was requested before this observation may have been applied in
			// between. An index is "unchanged" only if every such version (and the
			// initial one) configures the same destination there.
			cands := []int64{0}
			for _, r := range h.reloads {
				if r[0] < o.seq {
					cands = append(cands, r[2])
				}
			}
			for i := 0; i < len(prev.items) && i < len(o.items); i++ {
				a := strings.Split(prev.items[i], "=")
				b := strings.Split(o.items[i], "=")
				if len(a) < 4 || len(b) < 4 {
					continue
				}
				// fields: pos, dest (may contain '='), id, state
				da, ia := strings.Join(a[1:len(a)-2], "="), a[len(a)-2]
				db, ib := strings.Join(b[1:len(b)-2], "="), b[len(b)-2]
				if da != db && ia == ib {
					v.add("C39", "changed-forwarder-kept", "path %q: destination at index %d changed from %q to %q but the forwarder %s kept running", e.A, i+1, da, db, ia)
				}
				if da == db && ia != ib {
					constant := true
					for _, cv := range cands {
						if int(cv) >= len(body.Versions) {
							constant = false
							break
						}
						pc := w1Resolve(&body.Versions[cv], e.A)
						if pc == nil || i >= len(pc.Forward) || !strings.Contains(da, "/"+pc.Forward[i]+"?") {
							constant = false
							break
						}
					}
					if constant {
						v.add("C39", "unchanged-forwarder-restarted", "path %q: destination %q at index %d is the same in every configuration version applied so far but its forwarder was replaced (%s -> %s)", e.A, da, i+1, ia, ib)
					}
				}
			}
		}
		lastObs[key] = o
	}
	// the simulated forwarders: never two concurrent runs towards one resolved destination of one path
	// (a reload that moves a destination to another index starts the new forwarder
	// before the old one has finished stopping: that transient is not held against
	// the property, so only duplicates that no reload explains are reported)
	running := map[string]int64{}
	lastRun := map[string]int64{}
	for _, e := range h.ev {
		switch e.Kind {
		case "fwd.run":
			running[e.A]++
			if running[e.A] > 1 && !w1DupDest(body, e.A) && h.reloadsBetween(0, e.Seq) == 0 {
				v.add("C39", "forwarder-duplicated", "two forwarders run at once towards %q (seq %d, the other started at seq %d) and no reload has been requested so far", e.A, e.Seq, lastRun[e.A])
			}
			lastRun[e.A] = e.Seq
		case "fwd.exit":
			running[e.A]--
		}
	}
}

// w1Resolve returns the path specification that governs name in version v
// (exact name, else the first matching regular expression in name order with
// all_others last), written from the documentation, or nil.
func w1Resolve(v *w1Version, name string) *w1Path {
	for i := range v.Paths {
		if v.Paths[i].Name == name {
			return &v.Paths[i]
		}
	}
	var res []*w1Path
	for i := range v.Paths {
		if strings.HasPrefix(v.Paths[i].Name, "~") {
			res = append(res, &v.Paths[i])
		}
	}
	sort.Slice(res, func(a, b int) bool { return res[a].Name < res[b].Name })
	for _, p := range res {
		if ok, _ := regexp.MatchString(p.Name[1:], name); ok {
			return p
		}
	}
	for i := range v.Paths {
		if v.Paths[i].Name == "all_others" || v.Paths[i].Name == "all" {
			return &v.Paths[i]
		}
	}
	return nil
}

// w1DupDest reports whether some configuration lists the destination of url twice.
func w1DupDest(body *w1Body, url string) bool {
	for vi := range body.Versions {
		for _, p := range body.Versions[vi].Paths {
			seen := map[string]bool{}
			for _, d := range p.Forward {
				if seen[d] && strings.Contains(url, "/"+d+"?") {
					return true
				}
				seen[d] = true
			}
		}
	}
	return false
}

// ---- classification for evidence

func w1Classify(body *w1Body, res *simrt.Result, prop string) (bool, []string) {
	h := w1Parse(res.History)
	nontrivial := false
	okPubs, okRds, held, drops, closes := 0, 0, 0, int64(0), 0
	for _, p := range h.pubs {
		if p.ok {
			okPubs++
		}
	}
	for _, r := range h.rds {
		if r.ok {
			okRds++
			drops += r.discarded
			if r.closeSeq > 0 {
				closes++
			}
			if r.addRetT-r.addCallT > 0 {
				held++
			}
		}
	}
	contended := 0
	for _, p := range h.pubs {
		if !p.ok && p.addRet > 0 {
			for _, q := range h.pubs {
				if q.ok && q.path == p.path && q.addRet < p.addRet && q.defEnd() > p.addCall {
					contended++
					break
				}
			}
		}
		if p.ok && p.closeSeq > 0 && (p.removeCall == 0 || p.closeSeq < p.removeCall) {
			contended++
		}
	}
	hookLogs, fwdLogs, demand := 0, 0, 0
	for _, e := range h.logs {
		if strings.Contains(e.A, "command started") || strings.Contains(e.A, "command launched") {
			hookLogs++
		}
		if strings.Contains(e.A, "[RTMP dest ") {
			fwdLogs++
		}
		if strings.Contains(e.A, "on demand") || strings.Contains(e.A, "runOnDemand command started") {
			demand++
		}
	}
	switch prop {
	case "C03":
		nontrivial = okPubs+okRds > 0 && h.last["auth"] > 0
	case "C15":
		nontrivial = len(h.reloads) > 0
	case "C16":
		nontrivial = contended > 0
	case "C17":
		nontrivial = okRds > 0 && h.last["rd.data"] > 0
	case "C18":
		nontrivial = okRds > 1 || closes > 0
	case "C19":
		nontrivial = demand > 0
	case "C20":
		nontrivial = hookLogs > 1
	case "C39":
		nontrivial = fwdLogs > 0
	default:
		nontrivial = okPubs > 0 && okRds > 0
	}
	// abstract state: coarse shape of what happened in this run
	bucket := func(n int) int {
		switch {
		case n == 0:
			return 0
		case n == 1:
			return 1
		case n < 4:
			return 2
		}
		return 3
	}
	abs := fmt.Sprintf("p%d r%d h%d d%d c%d k%d hk%d fw%d dm%d rl%d", bucket(okPubs), bucket(okRds), bucket(held), bucket(int(drops)),
		bucket(contended), bucket(closes), bucket(hookLogs), bucket(fwdLogs), bucket(demand), bucket(len(h.reloads)))
	// order hash: the sequence of event kinds per actor-visible operation
	hh := fnv.New64a()
	for _, e := range res.History {
		if e.Kind == "log" || e.Foreign {
			continue
		}
		hh.Write([]byte(e.Kind))
		hh.Write([]byte(e.A))
		hh.Write([]byte{0})
	}
	return nontrivial, []string{abs, fmt.Sprintf("%016x", hh.Sum64())}
}
