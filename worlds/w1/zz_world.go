package core

// W1 "pathworld": the real pathManager / path / stream / staticsources.Handler /
// forward.Manager / hooks / externalcmd code driven by protocol-shaped client
// actors, a simulated pulled source, simulated forwarders and simulated hook
// processes, under the simrt scheduler. This file is instrumented by goinst
// like the rest of package core.

import (
	"context"
	"encoding/json"
	"fmt"
	"math/rand"
	"net"
	"os"
	"path/filepath"
	"sort"
	"strings"
	"sync"
	"sync/atomic"
	"testing"
	"time"

	"github.com/bluenviron/gortsplib/v5/pkg/description"
	"github.com/bluenviron/gortsplib/v5/pkg/format"
	"github.com/google/uuid"

	"github.com/bluenviron/mediamtx/internal/auth"
	"github.com/bluenviron/mediamtx/internal/conf"
	"github.com/bluenviron/mediamtx/internal/defs"
	"github.com/bluenviron/mediamtx/internal/externalcmd"
	fwrtmp "github.com/bluenviron/mediamtx/internal/forward/rtmp"
	"github.com/bluenviron/mediamtx/internal/logger"
	"github.com/bluenviron/mediamtx/internal/staticsources"
	ssrtp "github.com/bluenviron/mediamtx/internal/staticsources/rtp"
	"github.com/bluenviron/mediamtx/internal/stream"
	"github.com/bluenviron/mediamtx/internal/unit"
	"github.com/bluenviron/mediamtx/internal/zzsim/simrt"
)

func simWorldMain(t *testing.T) { simrt.WorkerMain(t, &w1World{}) }

// ---------------------------------------------------------------------------
// scenario

type w1Perm struct {
	Action string `json:"action"`
	Path   string `json:"path"`
}

type w1User struct {
	User  string   `json:"user"`
	Pass  string   `json:"pass"`
	IPs   []string `json:"ips,omitempty"`
	Perms []w1Perm `json:"perms"`
}

type w1Path struct {
	Name           string   `json:"name"`
	Source         string   `json:"source"` // publisher | sim | redirect
	SrcTag         string   `json:"src_tag,omitempty"`
	OnDemand       bool     `json:"on_demand,omitempty"`
	StartTimeoutMs int64    `json:"start_timeout_ms,omitempty"`
	CloseAfterMs   int64    `json:"close_after_ms,omitempty"`
	MaxReaders     int      `json:"max_readers,omitempty"`
	Override       bool     `json:"override,omitempty"`
	Forward        []string `json:"forward,omitempty"`
	Hooks          []string `json:"hooks,omitempty"` // init initR demand demandR undemand avail availR unavail online onlineR offline
	Record         bool     `json:"record,omitempty"`
	Always         bool     `json:"always_available,omitempty"` // alwaysAvailable with the two audio tracks the publishers send
}

type w1Version struct {
	Paths []w1Path `json:"paths"`
	Users []w1User `json:"users"`
}

type w1Op struct {
	Op string `json:"op"`
	N  int64  `json:"n,omitempty"`
	Ms int64  `json:"ms,omitempty"`
}

type w1Actor struct {
	Kind       string `json:"kind"` // pub rd desc reload api
	Path       string `json:"path,omitempty"`
	User       string `json:"user,omitempty"`
	Pass       string `json:"pass,omitempty"`
	IP         string `json:"ip,omitempty"`
	Shape      string `json:"shape,omitempty"`
	StartMs    int64  `json:"start_ms,omitempty"`
	Ops        []w1Op `json:"ops"`
	Formats    []int  `json:"formats,omitempty"`
	SlowMs     int64  `json:"slow_ms,omitempty"`
	FailAt     int64  `json:"fail_at,omitempty"`
	LateWrites int64  `json:"late_writes,omitempty"`
	BadDesc    bool   `json:"bad_desc,omitempty"` // publishes one track only: rejected by an always-available path, whose tracks are fixed
	BadRTP     bool   `json:"bad_rtp,omitempty"`  // publishes RTP packets of a format whose decoder cannot be created: refused by every path
}

type w1Body struct {
	QueueSize  int         `json:"queue_size"`
	Versions   []w1Version `json:"versions"`
	Actors     []w1Actor   `json:"actors"`
	SrcFailP   float64     `json:"src_fail_p"`
	SrcDialP   float64     `json:"src_dial_p"`
	FwdFailP   float64     `json:"fwd_fail_p"`
	HookExitP  float64     `json:"hook_exit_p"`
	TailMs     int64       `json:"tail_ms"`
	NoStallLiv bool        `json:"-"`
	// C40 runs without always-available paths: publishers also send an H.264 track whose in-band
	// parameters change now and then (the stream then rewrites its description in place)
	Video bool `json:"video,omitempty"`
}

var w1HookKinds = []string{"init", "demand", "undemand", "avail", "unavail", "online", "offline"}

func w1Pick[T any](rng *rand.Rand, xs ...T) T { return xs[rng.Intn(len(xs))] }

// Gen builds a random scenario. The focus property biases the mix.
func (w *w1World) Gen(rng *rand.Rand, property, tier string) (any, simrt.Sched) {
	b := &w1Body{
		QueueSize: w1Pick(rng, 1, 2, 4, 8, 8),
		SrcFailP:  w1Pick(rng, 0, 0, 0.02, 0.1),
		SrcDialP:  w1Pick(rng, 0, 0, 0.2, 0.5),
		FwdFailP:  w1Pick(rng, 0, 0.1, 0.4),
		HookExitP: w1Pick(rng, 0, 0.2, 0.5),
	}
	focus := property
	users := []w1User{
		{User: "admin", Pass: "adminpw", Perms: []w1Perm{{"publish", ""}, {"read", ""}}},
		{User: "pubonly", Pass: "p1", Perms: []w1Perm{{"publish", ""}}},
		{User: "rdonly", Pass: "r1", Perms: []w1Perm{{"read", ""}}},
		{User: "s1only", Pass: "x1", Perms: []w1Perm{{"publish", "s1"}, {"read", "s1"}}},
		{User: "ipuser", Pass: "ip1", IPs: []string{"10.0.0.0/8"}, Perms: []w1Perm{{"publish", ""}, {"read", ""}}},
		{User: "rx", Pass: "rx1", Perms: []w1Perm{{"read", "~^r[0-9]+$"}}},
	}
	if rng.Intn(4) == 0 {
		users = append(users, w1User{User: "any", Perms: []w1Perm{{"read", "s2"}}})
	}

	hooks := func() []string {
		if focus != "C20" && focus != "C19" && focus != "C40" && rng.Intn(3) != 0 {
			return nil
		}
		var hs []string
		for _, k := range w1HookKinds {
			if rng.Intn(3) != 0 {
				hs = append(hs, k)
				if (k == "init" || k == "demand" || k == "avail" || k == "online") && rng.Intn(3) == 0 {
					hs = append(hs, k+"R")
				}
			}
		}
		return hs
	}
	fwd := func() []string {
		if focus != "C39" && focus != "C40" && rng.Intn(4) != 0 {
			return nil
		}
		n := rng.Intn(4)
		var out []string
		for i := 0; i < n; i++ {
			out = append(out, fmt.Sprintf("d%d", rng.Intn(5)))
		}
		if focus == "C39" && len(out) > 0 && rng.Intn(10) == 0 {
			out[rng.Intn(len(out))] = fmt.Sprintf("D%d", rng.Intn(3))
		}
		return out
	}
	tmo := func() int64 { return w1Pick[int64](rng, 50, 200, 1000, 3000, 10000) }
	mkPath := func(name string) w1Path {
		p := w1Path{Name: name, Source: "publisher"}
		switch rng.Intn(10) {
		case 0, 1, 2:
			p.Source = "sim"
			p.SrcTag = name
			p.OnDemand = rng.Intn(3) != 0
		case 3:
			if !strings.HasPrefix(name, "~") && name != "all_others" {
				p.Source = "redirect"
			}
		}
		if strings.HasPrefix(name, "~") || name == "all_others" {
			if p.Source == "sim" {
				p.OnDemand = true // regexp paths with static sources must be on demand
			}
		}
		if focus == "C19" && rng.Intn(2) == 0 && p.Source != "redirect" {
			if rng.Intn(2) == 0 {
				p.Source, p.SrcTag, p.OnDemand = "sim", name, true
			}
		}
		p.StartTimeoutMs, p.CloseAfterMs = tmo(), tmo()
		if rng.Intn(3) == 0 || focus == "C18" {
			p.MaxReaders = 1 + rng.Intn(3)
		}
		p.Override = rng.Intn(2) == 0
		p.Forward = fwd()
		p.Hooks = hooks()
		if p.Source == "publisher" && (focus == "C19" || focus == "C20") && rng.Intn(2) == 0 {
			has := false
			for _, h := range p.Hooks {
				if h == "demand" {
					has = true
				}
			}
			if !has {
				p.Hooks = append(p.Hooks, "demand")
			}
		}
		return p
	}

	names := []string{"s1"}
	if rng.Intn(2) == 0 {
		names = append(names, "s2")
	}
	if rng.Intn(2) == 0 {
		names = append(names, w1Pick(rng, "~^r([0-9]+)$", "~^(r|q)([0-9]+)$"))
	}
	if rng.Intn(3) == 0 {
		names = append(names, "all_others")
	}
	v0 := w1Version{Users: users}
	for _, n := range names {
		v0.Paths = append(v0.Paths, mkPath(n))
	}
	always := false
	// C18, one run in four: an always-available path whose readers watch the offline filler (no
	// publisher for long stretches) while reloads re-create the path: the teardown half of the property
	quietAlways := focus == "C18" && rng.Intn(4) == 0
	if ((focus == "C16" || focus == "C17") && rng.Intn(2) == 0) || quietAlways {
		// the stream outlives its publishers: an offline filler runs whenever nobody publishes
		always = true
		p := &v0.Paths[0]
		p.Always, p.Source, p.SrcTag, p.OnDemand = true, "publisher", "", false
		p.Override = rng.Intn(4) != 0
		var hk []string
		for _, h := range p.Hooks {
			if h != "demand" && h != "demandR" && h != "undemand" {
				hk = append(hk, h)
			}
		}
		p.Hooks = hk
	}
	b.Versions = []w1Version{v0}

	// further versions: mutate the previous one
	nver := rng.Intn(3)
	if focus == "C15" || focus == "C39" || focus == "C03" || quietAlways {
		nver = 1 + rng.Intn(3)
	}
	for i := 0; i < nver; i++ {
		prev := b.Versions[len(b.Versions)-1]
		nv := w1Version{Users: prev.Users}
		raw, _ := json.Marshal(prev.Paths)
		json.Unmarshal(raw, &nv.Paths)
		nm := 1 + rng.Intn(2)
		for j := 0; j < nm; j++ {
			if len(nv.Paths) == 0 {
				nv.Paths = append(nv.Paths, mkPath("s1"))
				continue
			}
			k := rng.Intn(len(nv.Paths))
			p := &nv.Paths[k]
			if quietAlways && j == 0 && nv.Paths[0].Always {
				// a change that cannot be applied in place: the always-available path is re-created
				nv.Paths[0].MaxReaders = nv.Paths[0].MaxReaders%3 + 1
				continue
			}
			switch rng.Intn(10) {
			case 0, 1, 2: // hot: forward list
				switch rng.Intn(4) {
				case 0:
					p.Forward = append(p.Forward, fmt.Sprintf("d%d", rng.Intn(5)))
				case 1:
					if len(p.Forward) > 0 {
						p.Forward = p.Forward[:len(p.Forward)-1]
					}
				case 2:
					if len(p.Forward) > 0 {
						p.Forward[rng.Intn(len(p.Forward))] = fmt.Sprintf("d%d", 5+rng.Intn(3))
					}
				default:
					if len(p.Forward) > 1 {
						x := rng.Intn(len(p.Forward))
						p.Forward = append(p.Forward[:x:x], p.Forward[x+1:]...)
					} else {
						p.Forward = append(p.Forward, "d9")
					}
				}
			case 3: // cold: maxReaders
				p.MaxReaders = (p.MaxReaders + 1) % 4
			case 4: // cold: override
				p.Override = !p.Override
			case 5: // remove the configuration
				nv.Paths = append(nv.Paths[:k:k], nv.Paths[k+1:]...)
			case 6: // add a configuration
				if (strings.HasPrefix(p.Name, "~") || p.Name == "all_others") && rng.Intn(2) == 0 {
					// a static entry for a name that this regular-expression entry serves so far, with
					// the same settings: a live path of that name is taken over, not re-created
					has := false
					for _, q := range nv.Paths {
						if q.Name == "r7" {
							has = true
						}
					}
					if !has {
						cp := *p
						cp.Name = "r7"
						cp.Forward = append([]string(nil), p.Forward...)
						cp.Hooks = append([]string(nil), p.Hooks...)
						nv.Paths = append(nv.Paths, cp)
						continue
					}
				}
				cand := w1Pick(rng, "s2", "s3", "~^r([0-9]+)$", "~^(r|q)([0-9]+)$", "all_others", "r7")
				dup := false
				for _, q := range nv.Paths {
					if q.Name == cand {
						dup = true
					}
				}
				if !dup {
					nv.Paths = append(nv.Paths, mkPath(cand))
				}
			case 7: // rename a regexp keeping its other fields (capture groups change)
				if strings.HasPrefix(p.Name, "~") {
					cand := w1Pick(rng, "~^r([0-9]+)$", "~^(r|q)([0-9]+)$", "~^(r)([0-9]+)$")
					dup := false
					for _, q := range nv.Paths {
						if q.Name == cand {
							dup = true
						}
					}
					if !dup {
						p.Name = cand
						if p.Source == "sim" {
							p.SrcTag = cand
						}
					}
				}
			case 8: // cold: timeouts
				p.CloseAfterMs = tmo()
			default: // hot: record flag stays off; toggle a hook (cold)
				if len(p.Hooks) > 0 {
					p.Hooks = p.Hooks[:len(p.Hooks)-1]
				} else {
					p.Hooks = []string{"init"}
				}
			}
		}
		if rng.Intn(3) == 0 {
			// change the user list: drop the last user or change a password
			us := append([]w1User(nil), nv.Users...)
			if rng.Intn(2) == 0 && len(us) > 1 {
				us = us[:len(us)-1]
			} else {
				us[0].Pass = us[0].Pass + "x"
			}
			nv.Users = us
		}
		b.Versions = append(b.Versions, nv)
	}

	// actors
	targets := []string{"s1", "s1", "s2", "r1", "r2", "q5", "zz", "s3", "r7"}
	creds := [][3]string{
		{"admin", "adminpw", "127.0.0.1"}, {"admin", "adminpw", "127.0.0.1"}, {"admin", "adminpw", "127.0.0.1"},
		{"pubonly", "p1", "127.0.0.1"}, {"rdonly", "r1", "127.0.0.1"}, {"s1only", "x1", "127.0.0.1"},
		{"ipuser", "ip1", "10.1.2.3"}, {"ipuser", "ip1", "192.168.1.1"}, {"rx", "rx1", "::1"},
		{"admin", "wrong", "127.0.0.1"}, {"", "", "127.0.0.1"},
	}
	if focus != "C03" {
		// mostly valid credentials so that the workload makes progress
		creds = append(creds, creds[0], creds[0], creds[0], creds[0], creds[0], creds[0])
	}
	maxT := int64(0)
	addActor := func(a w1Actor) {
		c := w1Pick(rng, creds...)
		a.User, a.Pass, a.IP = c[0], c[1], c[2]
		a.StartMs = w1Pick[int64](rng, 0, 0, 1, 10, 100, 500, 2000)
		b.Actors = append(b.Actors, a)
	}
	gap := func() int64 { return w1Pick[int64](rng, 0, 1, 10, 50, 200, 1000, 3000) }
	npub := 1 + rng.Intn(3)
	if focus == "C16" {
		npub = 2 + rng.Intn(2)
	}
	tgt := func() string {
		if focus == "C16" || focus == "C17" || focus == "C18" {
			return w1Pick(rng, "s1", "s1", "s1", "r1")
		}
		return w1Pick(rng, targets...)
	}
	if quietAlways {
		// nobody, or one short publisher: the readers mostly see the filler
		npub = rng.Intn(2)
	} else if always {
		// a publisher that writes in a long burst and a rival that arrives at the instant of one of
		// its writes (the replacement happens while a write of the replaced publisher is in progress)
		ms := w1Pick[int64](rng, 1, 1, 1, 2)
		st := w1Pick[int64](rng, 10, 100)
		a := w1Actor{Kind: "pub", Path: "s1", Shape: "1phase", LateWrites: int64(rng.Intn(4)), StartMs: st,
			User: "admin", Pass: "adminpw", IP: "127.0.0.1"}
		r := w1Actor{Kind: "pub", Path: "s1", Shape: "1phase", LateWrites: int64(rng.Intn(4)),
			User: "admin", Pass: "adminpw", IP: "127.0.0.1"}
		// they take turns: each session starts somewhere inside the other's burst
		n := int64(60 + rng.Intn(60))
		r.StartMs = st + ms*int64(5+rng.Intn(int(n)-10))
		rounds := 1 + rng.Intn(3)
		for k := 0; k < rounds; k++ {
			a.Ops = append(a.Ops, w1Op{Op: "session", N: n, Ms: ms})
			r.Ops = append(r.Ops, w1Op{Op: "session", N: n, Ms: ms})
			// after being replaced (or done) come back inside the rival's burst
			a.Ops = append(a.Ops, w1Op{Op: "sleep", Ms: ms * int64(5+rng.Intn(int(n)/2))})
			r.Ops = append(r.Ops, w1Op{Op: "sleep", Ms: ms * int64(5+rng.Intn(int(n)/2))})
		}
		b.Actors = append(b.Actors, a, r)
		if rng.Intn(3) == 0 {
			// a rival whose tracks do not fit the always-available stream: it is refused, possibly after
			// the current publisher has been closed to make room for it
			x := w1Actor{Kind: "pub", Path: "s1", Shape: "1phase", BadDesc: true, StartMs: st + ms*int64(5+rng.Intn(int(n)-10)),
				User: "admin", Pass: "adminpw", IP: "127.0.0.1"}
			x.Ops = append(x.Ops, w1Op{Op: "session", N: 3, Ms: 1})
			b.Actors = append(b.Actors, x)
		}
		npub = rng.Intn(2)
	}
	for i := 0; i < npub; i++ {
		a := w1Actor{Kind: "pub", Path: tgt(), Shape: w1Pick(rng, "2phase", "2phase", "1phase"),
			LateWrites: int64(rng.Intn(4))}
		if !always && i > 0 && rng.Intn(6) == 0 {
			a.BadRTP = true
		}
		ns := 1 + rng.Intn(2)
		for s := 0; s < ns; s++ {
			a.Ops = append(a.Ops, w1Op{Op: "session", N: int64(1 + rng.Intn(12)), Ms: w1Pick[int64](rng, 0, 1, 10, 100, 500)})
			a.Ops = append(a.Ops, w1Op{Op: "sleep", Ms: gap()})
		}
		addActor(a)
	}
	nrd := 1 + rng.Intn(4)
	if focus == "C18" {
		nrd = 3 + rng.Intn(3)
	}
	for i := 0; i < nrd; i++ {
		a := w1Actor{Kind: "rd", Path: tgt(), Shape: w1Pick(rng, "1phase", "1phase", "rtsp", "hls"),
			Formats: w1Pick(rng, []int{0, 1}, []int{0}, []int{1}, []int{0, 1})}
		if rng.Intn(3) == 0 {
			a.SlowMs = w1Pick[int64](rng, 1, 50, 400, 2000)
		}
		if rng.Intn(6) == 0 {
			a.FailAt = int64(1 + rng.Intn(5))
		}
		ns := 1 + rng.Intn(3)
		for s := 0; s < ns; s++ {
			a.Ops = append(a.Ops, w1Op{Op: "session", Ms: w1Pick[int64](rng, 10, 200, 1000, 5000, 12000), N: int64(rng.Intn(3))})
			a.Ops = append(a.Ops, w1Op{Op: "sleep", Ms: gap()})
		}
		addActor(a)
	}
	ndesc := rng.Intn(3)
	for i := 0; i < ndesc; i++ {
		a := w1Actor{Kind: "desc", Path: tgt()}
		for s := 0; s < 1+rng.Intn(3); s++ {
			a.Ops = append(a.Ops, w1Op{Op: "describe", Ms: gap()})
		}
		addActor(a)
	}
	if focus == "C15" && !always && rng.Intn(4) == 0 {
		// take-over: a name served by the catch-all entry gets a static entry with the same settings
		// at the instant its last client leaves (the path asks to be closed as idle while the path
		// manager hands it over to the static entry)
		v0 := w1Version{Users: b.Versions[0].Users}
		for _, p := range b.Versions[0].Paths {
			if p.Name == "s1" {
				v0.Paths = append(v0.Paths, p)
			}
		}
		catchAll := w1Path{Name: "all_others", Source: "publisher", StartTimeoutMs: 1000, CloseAfterMs: 1000, Override: true}
		v0.Paths = append(v0.Paths, catchAll)
		v1 := w1Version{Users: v0.Users, Paths: append([]w1Path(nil), v0.Paths...)}
		st := catchAll
		st.Name = "r7"
		v1.Paths = append(v1.Paths, st)
		b.Versions = []w1Version{v0, v1}
		t := w1Pick[int64](rng, 100, 500, 1500)
		cl := w1Actor{Kind: w1Pick(rng, "rd", "pub"), Path: "r7", Shape: "1phase", User: "admin", Pass: "adminpw", IP: "127.0.0.1", Formats: []int{0, 1}}
		if cl.Kind == "rd" {
			cl.Ops = []w1Op{{Op: "session", Ms: t}}
		} else {
			cl.Ops = []w1Op{{Op: "session", N: t / 10, Ms: 10}}
		}
		b.Actors = append(b.Actors, cl)
		b.Actors = append(b.Actors, w1Actor{Kind: "reload", StartMs: t, Ops: []w1Op{{Op: "reload", N: 1}}})
	} else if focus == "C15" && !always && rng.Intn(4) == 0 {
		// a pulled source that is started on demand and stays up until the final checks (long
		// close-after); changes that are applied in place reach its path while the source is
		// stopped (before the first reader) or running (two changes in a row)
		src := w1Path{Name: "s1", Source: "sim", SrcTag: "s1", OnDemand: true, StartTimeoutMs: 10000, CloseAfterMs: 60000, Forward: []string{"d1"}}
		mk := func(fw ...string) w1Version {
			p := src
			p.Forward = fw
			return w1Version{Users: b.Versions[0].Users, Paths: []w1Path{p, {Name: "all_others", Source: "publisher", StartTimeoutMs: 1000, CloseAfterMs: 1000}}}
		}
		b.Versions = []w1Version{mk("d1"), mk("d1", "d2"), mk("d3")}
		rd := w1Actor{Kind: "rd", Path: "s1", Shape: "1phase", User: "admin", Pass: "adminpw", IP: "127.0.0.1", Formats: []int{0, 1}}
		re := w1Actor{Kind: "reload"}
		if rng.Intn(2) == 0 {
			re.StartMs = w1Pick[int64](rng, 0, 500)
			re.Ops = []w1Op{{Op: "reload", N: 1}}
			if rng.Intn(2) == 0 {
				re.Ops = append(re.Ops, w1Op{Op: "reload", N: 2, Ms: w1Pick[int64](rng, 0, 100)})
			}
			rd.StartMs = 2000
			rd.Ops = []w1Op{{Op: "session", Ms: 5000}}
		} else {
			rd.Ops = []w1Op{{Op: "session", Ms: 30000}}
			re.StartMs = w1Pick[int64](rng, 3000, 12000, 25000)
			re.Ops = []w1Op{{Op: "reload", N: 1}, {Op: "reload", N: 2, Ms: w1Pick[int64](rng, 0, 0, 1, 100)}}
			for k, n := 0, rng.Intn(4); k < n; k++ {
				re.Ops = append(re.Ops, w1Op{Op: "reload", N: int64(1 + k%2), Ms: w1Pick[int64](rng, 0, 0, 0, 1)})
			}
		}
		b.Actors = append(b.Actors, rd, re)
	} else if len(b.Versions) > 1 {
		a := w1Actor{Kind: "reload", StartMs: w1Pick[int64](rng, 0, 50, 500, 3000)}
		nre := 1 + rng.Intn(4)
		for s := 0; s < nre; s++ {
			a.Ops = append(a.Ops, w1Op{Op: "reload", N: int64(rng.Intn(len(b.Versions))), Ms: w1Pick[int64](rng, 0, 0, 1, 100, 2000)})
		}
		a.Ops = append(a.Ops, w1Op{Op: "reload", N: int64(len(b.Versions) - 1)})
		b.Actors = append(b.Actors, a)
	}
	napi := rng.Intn(3)
	if focus == "C40" {
		napi = 1 + rng.Intn(2)
	}
	for i := 0; i < napi; i++ {
		a := w1Actor{Kind: "api", StartMs: gap()}
		for s := 0; s < 2+rng.Intn(5); s++ {
			a.Ops = append(a.Ops, w1Op{Op: w1Pick(rng, "list", "get", "fwd"), Ms: gap()})
		}
		b.Actors = append(b.Actors, a)
	}
	_ = maxT
	// epilogue: longer than any timeout + retry pause
	b.TailMs = 10000 + 5000 + 10000 + 2000

	sched := simrt.DefaultSched(rng)
	// where the "starve" strategy prefers to delay goroutines: the files of the mechanism under check
	switch focus {
	case "C16", "C17":
		sched.Focus = []string{"stream/sub_stream", "stream/stream.go", "stream/reader.go"}
	case "C18", "C19", "C20", "C03":
		sched.Focus = []string{"core/path.go", "core/path_manager.go"}
	case "C15":
		sched.Focus = []string{"core/path_manager.go", "core/path.go", "staticsources/handler.go"}
	case "C39":
		sched.Focus = []string{"forward/"}
	}
	if always {
		sched.MaxSteps = 120000
		if rng.Intn(2) == 0 {
			sched.Strategy = "starve"
			if sched.StallProb == 0 {
				sched.StallProb = 0.002
			}
		}
	}
	if property == "C40" && !always {
		b.Video = rng.Intn(2) == 0
	}
	return b, sched
}

// ---------------------------------------------------------------------------
// harness

type w1World struct{}

type w1ConfSet struct {
	conf  *conf.Conf
	paths map[string]*conf.Path
}

type w1Harness struct {
	body      *w1Body
	prop      string
	dir       string
	versions  []*w1ConfSet
	pm        *pathManager
	pool      *externalcmd.Pool
	authm     *auth.Manager
	medias    []*description.Media
	nextSrc   atomic.Int64
	procSeq   atomic.Int64
	fwdSeq    atomic.Int64
	lastConfs map[string]*conf.Path
	srcMu     sync.Mutex
	srcInsts  []*w1SrcInst
}

// w1SrcInst is one run of a simulated pulled source and the configuration it runs with:
// the one it was started with, then every one delivered to it.
type w1SrcInst struct {
	src  *ssrtp.Source
	inst int64
	conf *conf.Path
	live bool
}

func (h *w1Harness) Log(level logger.Level, format string, args ...any) {
	simrt.Rec("log", fmt.Sprintf(format, args...), "", int64(level), 0, 0)
}

// authProxy records every Authenticate call.
type w1AuthProxy struct{ m *auth.Manager }

func (p *w1AuthProxy) Authenticate(req *auth.Request) (string, *auth.Error) {
	user, err := p.m.Authenticate(req)
	id := ""
	if req.ID != nil {
		id = req.ID.String()
	}
	cr := ""
	if req.Credentials != nil {
		cr = req.Credentials.User + "|" + req.Credentials.Pass
	}
	ok := int64(1)
	if err != nil {
		ok = 0
	}
	act := int64(0)
	if req.Action == conf.AuthActionPublish {
		act = 1
	}
	simrt.Rec("auth", id+"|"+cr+"|"+req.IP.String(), req.Path, act, ok, 0)
	return user, err
}

func w1HookCmd(kind string) string { return "simhook " + kind }

func (h *w1Harness) renderYAML(v w1Version) string {
	var sb strings.Builder
	sb.WriteString("rtsp: no\nrtmp: no\nhls: no\nwebrtc: no\nsrt: no\nmoq: no\napi: no\nmetrics: no\npprof: no\nplayback: no\n")
	fmt.Fprintf(&sb, "writeQueueSize: %d\n", h.body.QueueSize)
	sb.WriteString("authInternalUsers:\n")
	for _, u := range v.Users {
		fmt.Fprintf(&sb, "- user: %q\n", u.User)
		if u.Pass != "" {
			fmt.Fprintf(&sb, "  pass: %q\n", u.Pass)
		}
		if len(u.IPs) > 0 {
			fmt.Fprintf(&sb, "  ips: [%s]\n", strings.Join(u.IPs, ", "))
		}
		sb.WriteString("  permissions:\n")
		for _, p := range u.Perms {
			fmt.Fprintf(&sb, "  - action: %s\n", p.Action)
			if p.Path != "" {
				fmt.Fprintf(&sb, "    path: %q\n", p.Path)
			}
		}
	}
	sb.WriteString("paths:\n")
	if len(v.Paths) == 0 {
		sb.WriteString("  {}\n")
	}
	for _, p := range v.Paths {
		fmt.Fprintf(&sb, "  %q:\n", p.Name)
		switch p.Source {
		case "sim":
			fmt.Fprintf(&sb, "    source: udp+rtp://127.0.0.1:5000\n")
			fmt.Fprintf(&sb, "    rtpSDP: %q\n", "simsrc "+p.SrcTag)
			fmt.Fprintf(&sb, "    sourceOnDemand: %v\n", p.OnDemand)
			fmt.Fprintf(&sb, "    sourceOnDemandStartTimeout: %dms\n", p.StartTimeoutMs)
			fmt.Fprintf(&sb, "    sourceOnDemandCloseAfter: %dms\n", p.CloseAfterMs)
		case "redirect":
			sb.WriteString("    source: redirect\n    sourceRedirect: rtsp://other:8554/x\n")
		default:
			fmt.Fprintf(&sb, "    overridePublisher: %v\n", p.Override)
			if p.Always {
				sb.WriteString("    alwaysAvailable: yes\n    alwaysAvailableTracks:\n")
				sb.WriteString("    - codec: G711\n      sampleRate: 8000\n      channelCount: 1\n      muLaw: yes\n")
				sb.WriteString("    - codec: LPCM\n      sampleRate: 8000\n      channelCount: 1\n")
			}
		}
		if p.MaxReaders != 0 {
			fmt.Fprintf(&sb, "    maxReaders: %d\n", p.MaxReaders)
		}
		if len(p.Forward) > 0 {
			sb.WriteString("    forward:\n")
			for _, d := range p.Forward {
				// a destination tag in capitals is written with its scheme in capitals too
				// (URL schemes are case-insensitive; the configuration accepts them)
				scheme := "rtmp"
				if strings.HasPrefix(d, "D") {
					scheme = "RTMP"
				}
				fmt.Fprintf(&sb, "    - dest: '%s://sim/%s?p=$MTX_PATH'\n", scheme, d)
			}
		}
		isRegexp := strings.HasPrefix(p.Name, "~") || p.Name == "all_others" || p.Name == "all"
		for _, hk := range p.Hooks {
			if isRegexp && (hk == "init" || hk == "initR") {
				continue // not supported on regular-expression paths
			}
			switch hk {
			case "init":
				fmt.Fprintf(&sb, "    runOnInit: %s\n", w1HookCmd("init"))
			case "initR":
				sb.WriteString("    runOnInitRestart: yes\n")
			case "demand":
				if p.Source == "publisher" {
					fmt.Fprintf(&sb, "    runOnDemand: %s\n", w1HookCmd("demand"))
					fmt.Fprintf(&sb, "    runOnDemandStartTimeout: %dms\n", p.StartTimeoutMs)
					fmt.Fprintf(&sb, "    runOnDemandCloseAfter: %dms\n", p.CloseAfterMs)
				}
			case "demandR":
				if p.Source == "publisher" {
					sb.WriteString("    runOnDemandRestart: yes\n")
				}
			case "undemand":
				if p.Source == "publisher" {
					fmt.Fprintf(&sb, "    runOnUnDemand: %s\n", w1HookCmd("undemand"))
				}
			case "avail":
				fmt.Fprintf(&sb, "    runOnAvailable: %s\n", w1HookCmd("avail"))
			case "availR":
				sb.WriteString("    runOnAvailableRestart: yes\n")
			case "unavail":
				fmt.Fprintf(&sb, "    runOnUnavailable: %s\n", w1HookCmd("unavail"))
			case "online":
				fmt.Fprintf(&sb, "    runOnOnline: %s\n", w1HookCmd("online"))
			case "onlineR":
				sb.WriteString("    runOnOnlineRestart: yes\n")
			case "offline":
				fmt.Fprintf(&sb, "    runOnOffline: %s\n", w1HookCmd("offline"))
			}
		}
	}
	return sb.String()
}

func (h *w1Harness) loadVersions() error {
	for i, v := range h.body.Versions {
		fp := filepath.Join(h.dir, fmt.Sprintf("v%d.yml", i))
		y := h.renderYAML(v)
		if err := os.WriteFile(fp, []byte(y), 0o644); err != nil {
			return err
		}
		c, _, err := conf.Load(fp, nil, nil)
		if err != nil {
			return fmt.Errorf("version %d: %w\n%s", i, err, y)
		}
		h.versions = append(h.versions, &w1ConfSet{conf: c, paths: c.Paths})
	}
	return nil
}

func w1UUID(kind byte, idx int) uuid.UUID {
	var u uuid.UUID
	u[0] = kind
	u[1] = byte(idx)
	u[6] = 0x40
	u[8] = 0x80
	return u
}

func w1Payload(pub int64, fm int, serial int64) []byte {
	return []byte{byte(pub), byte(fm), byte(serial >> 24), byte(serial >> 16), byte(serial >> 8), byte(serial), 0xAA, 0x55}
}

func (h *w1Harness) mkDesc() *description.Session {
	d := &description.Session{Medias: []*description.Media{
		{Type: description.MediaTypeAudio, Formats: []format.Format{&format.G711{PayloadTyp: 0, MULaw: true, SampleRate: 8000, ChannelCount: 1}}},
		{Type: description.MediaTypeAudio, Formats: []format.Format{&format.LPCM{PayloadTyp: 96, BitDepth: 16, SampleRate: 8000, ChannelCount: 1}}},
	}}
	if h.body.Video {
		d.Medias = append(d.Medias, &description.Media{Type: description.MediaTypeVideo,
			Formats: []format.Format{&format.H264{PayloadTyp: 97, SPS: w1SPS, PPS: w1PPS[0], PacketizationMode: 1}}})
	}
	return d
}

var w1SPS = []byte{
	0x67, 0x42, 0xc0, 0x28, 0xd9, 0x00, 0x78, 0x02,
	0x27, 0xe5, 0x84, 0x00, 0x00, 0x03, 0x00, 0x04,
	0x00, 0x00, 0x03, 0x00, 0xf0, 0x3c, 0x60, 0xc9, 0x20,
}

var w1PPS = [][]byte{{0x08, 0x06, 0x07, 0x08}, {0x08, 0x07, 0x08, 0x09}}

func w1WriteUnit(ss *stream.SubStream, desc *description.Session, who string, pub int64, fm int, serial int64, pts int64) {
	medi := desc.Medias[fm]
	forma := medi.Formats[0]
	var pl unit.Payload
	if fm == 0 {
		pl = unit.PayloadG711(w1Payload(pub, fm, serial))
	} else {
		pl = unit.PayloadLPCM(w1Payload(pub, fm, serial))
	}
	simrt.Rec("write.begin", who, "", serial, int64(fm), pub)
	ss.WriteUnit(medi, forma, &unit.Unit{PTS: pts, Payload: pl})
	simrt.Rec("write.end", who, "", serial, int64(fm), pub)
}

// ---- publisher actor

type w1Pub struct {
	h      *w1Harness
	idx    int
	a      *w1Actor
	name   string
	id     uuid.UUID
	closed *simrt.Signal
}

func (p *w1Pub) Log(level logger.Level, format string, args ...any) {}
func (p *w1Pub) APISourceDescribe() *defs.APIPathSource {
	return &defs.APIPathSource{Type: defs.APIPathSourceTypeRTMPConn, ID: p.id.String()}
}
func (p *w1Pub) Close() {
	simrt.Rec("pub.close", p.name, "", 0, 0, 0)
	p.closed.Fire()
}

func (h *w1Harness) accessReq(a *w1Actor, id *uuid.UUID, publish bool) defs.PathAccessRequest {
	return defs.PathAccessRequest{
		Name: a.Path, Query: "", Publish: publish, Proto: auth.ProtocolRTMP, ID: id,
		Credentials: &auth.Credentials{User: a.User, Pass: a.Pass},
		IP:          net.ParseIP(a.IP),
	}
}

func (h *w1Harness) runPub(idx int, a *w1Actor) {
	time.Sleep(time.Duration(a.StartMs) * time.Millisecond)
	serial := int64(0)
	for si, op := range a.Ops {
		if simrt.Aborted() {
			return
		}
		if op.Op == "sleep" {
			time.Sleep(time.Duration(op.Ms) * time.Millisecond)
			continue
		}
		name := fmt.Sprintf("pub%d.%d", idx, si) // one name per session
		p := &w1Pub{h: h, idx: idx, a: a, name: name, id: w1UUID(1, idx*8+si), closed: simrt.NewSignal()}
		simrt.Touch(p)
		var confToCompare *conf.Path
		skipAuth := false
		if a.Shape == "2phase" {
			simrt.Rec("pub.find.call", name, a.Path, 0, 0, 0)
			res1, err := h.pm.FindPathConf(defs.PathFindPathConfReq{Author: p, AccessRequest: h.accessReq(a, &p.id, true)})
			if err != nil {
				simrt.Rec("pub.find.ret", name, a.Path, 0, 0, 0)
				continue
			}
			simrt.Rec("pub.find.ret", name, a.Path, 1, 0, 0)
			confToCompare = res1.Conf
			skipAuth = true
			// the protocol handshake takes a while
			time.Sleep(time.Duration(w1DelayTable[(idx+si)%len(w1DelayTable)]) * time.Millisecond)
		}
		desc := h.mkDesc()
		if a.BadDesc {
			desc.Medias = desc.Medias[:1]
		}
		useRTP := false
		if a.BadRTP {
			// a description the SDP layer accepts and the RTP decoder refuses (H.264 packetization mode 2):
			// the path refuses this publisher after it has looked at the tracks
			desc = &description.Session{Medias: []*description.Media{{Type: description.MediaTypeVideo,
				Formats: []format.Format{&format.H264{PayloadTyp: 96, SPS: w1SPS, PPS: w1PPS[0], PacketizationMode: 2}}}}}
			useRTP = true
		}
		ar := h.accessReq(a, &p.id, true)
		if skipAuth {
			ar = defs.PathAccessRequest{Name: a.Path, Publish: true, SkipAuth: true}
		}
		sk := int64(0)
		if skipAuth {
			sk = 1
		}
		simrt.Rec("pub.add.call", name, a.Path, sk, 0, 0)
		res2, err := h.pm.AddPublisher(defs.PathAddPublisherReq{
			Author: p, Desc: desc, UseRTPPackets: useRTP, ReplaceNTP: true,
			ConfToCompare: confToCompare, AccessRequest: ar,
		})
		if err != nil {
			simrt.Rec("pub.add.ret", name, a.Path, 0, 0, 0)
			simrt.Rec("pub.add.err", name, err.Error(), 0, 0, 0)
			continue
		}
		simrt.Touch(res2.Path)
		simrt.Rec("pub.add.ret", name, a.Path, 1, simrt.ObjID(res2.Path), int64(p.id[1]))
		late := a.LateWrites
		for i := int64(0); i < op.N; i++ {
			if p.closed.Fired() {
				if late <= 0 {
					break
				}
				late--
			}
			select {
			case <-time.After(time.Duration(op.Ms) * time.Millisecond):
			case <-p.closed.C():
			}
			fm := int(serial % 2)
			if a.BadDesc {
				fm = 0
			}
			w1WriteUnit(res2.SubStream, desc, name, int64(idx), fm, serial, serial*160)
			if len(desc.Medias) > 2 && serial%3 == 0 {
				// a key frame with in-band parameters; they change every second time
				vm := desc.Medias[2]
				res2.SubStream.WriteUnit(vm, vm.Formats[0], &unit.Unit{PTS: serial * 900,
					Payload: unit.PayloadH264{w1SPS, w1PPS[(serial/6)%2], {5, byte(serial)}}})
			}
			serial++
		}
		simrt.Rec("pub.remove.call", name, a.Path, 0, 0, 0)
		res2.Path.RemovePublisher(defs.PathRemovePublisherReq{Author: p})
		simrt.Rec("pub.remove.ret", name, a.Path, 0, 0, 0)
	}
}

var w1DelayTable = []int64{0, 1, 20, 300, 0, 1500, 5, 0}

// ---- reader actor

type w1Reader struct {
	h      *w1Harness
	name   string
	id     uuid.UUID
	hidden bool
	closed *simrt.Signal
}

func (r *w1Reader) Log(level logger.Level, format string, args ...any) {}
func (r *w1Reader) Close() {
	simrt.Rec("rd.close", r.name, "", 0, 0, 0)
	r.closed.Fire()
}
func (r *w1Reader) APIReaderDescribe() *defs.APIPathReader {
	if r.hidden {
		return &defs.APIPathReader{Type: defs.APIPathReaderTypeHidden, ID: ""}
	}
	return &defs.APIPathReader{Type: defs.APIPathReaderTypeRTMPConn, ID: r.id.String()}
}

func (h *w1Harness) runReader(idx int, a *w1Actor) {
	base := fmt.Sprintf("rd%d", idx)
	time.Sleep(time.Duration(a.StartMs) * time.Millisecond)
	for si, op := range a.Ops {
		if simrt.Aborted() {
			return
		}
		if op.Op == "sleep" {
			time.Sleep(time.Duration(op.Ms) * time.Millisecond)
			continue
		}
		name := fmt.Sprintf("%s.%d", base, si)
		r := &w1Reader{h: h, name: name, id: w1UUID(2, idx*8+si), closed: simrt.NewSignal()}
		simrt.Touch(r)
		ar := h.accessReq(a, &r.id, false)
		if a.Shape == "rtsp" {
			simrt.Rec("desc.call", name, a.Path, 0, 0, 0)
			dres, err := h.pm.Describe(defs.PathDescribeReq{Author: r, AccessRequest: ar})
			if err != nil || dres.Stream == nil {
				simrt.Rec("desc.ret", name, w1ErrText(err), 0, 0, 0)
				continue
			}
			simrt.Rec("desc.ret", name, "", 1, 0, 0)
			time.Sleep(time.Duration(w1DelayTable[(idx+si+3)%len(w1DelayTable)]) * time.Millisecond)
		}
		admitted := h.readerSession(name, r, a, ar, op, 0)
		if a.Shape == "hls" && !simrt.Aborted() {
			// the HLS muxer of the path attaches as a hidden reader without credentials,
			// only after an authenticated session flow for the same name
			hr := &w1Reader{h: h, name: name + ".mux", id: w1UUID(3, idx*8+si), hidden: true, closed: simrt.NewSignal()}
			simrt.Touch(hr)
			if admitted {
				h.readerSession(name+".mux", hr, a, defs.PathAccessRequest{Name: a.Path, SkipAuth: true}, w1Op{Ms: op.Ms / 2}, 1)
			}
		}
	}
}

func w1ErrText(err error) string {
	if err == nil {
		return ""
	}
	return err.Error()
}

func (h *w1Harness) readerSession(name string, r *w1Reader, a *w1Actor, ar defs.PathAccessRequest, op w1Op, skip int64) bool {
	simrt.Rec("rd.add.call", name, a.Path, skip, 0, 0)
	res, err := h.pm.AddReader(defs.PathAddReaderReq{Author: r, AccessRequest: ar})
	if err != nil {
		simrt.Rec("rd.add.ret", name, a.Path, 0, 0, 0)
		simrt.Rec("rd.add.err", name, err.Error(), 0, 0, 0)
		return false
	}
	simrt.Touch(res.Path)
	simrt.Touch(res.Stream)
	if res.Stream == nil {
		simrt.Violate("C19", "success-without-stream", "AddReader of %s on %s returned no error and no stream", name, a.Path)
		return true
	}
	simrt.Rec("rd.add.ret", name, a.Path, 1, simrt.ObjID(res.Path), simrt.ObjID(res.Stream))
	simrt.Rec("rd.conf", name, a.Path, int64(res.Path.SafeConf().MaxReaders), simrt.ObjID(res.Path), 0)

	sr := &stream.Reader{Parent: r}
	count := int64(0)
	sub := map[int]bool{}
	for _, fm := range a.Formats {
		sub[fm] = true
	}
	for fm := 0; fm < 2; fm++ {
		if !sub[fm] {
			continue
		}
		fm := fm
		medi := res.Stream.OrigDesc.Medias[fm]
		sr.OnData(medi, medi.Formats[0], func(u *unit.Unit) error {
			var pl []byte
			switch v := u.Payload.(type) {
			case unit.PayloadG711:
				pl = v
			case unit.PayloadLPCM:
				pl = v
			}
			if len(pl) != 8 {
				if res.Path.SafeConf().AlwaysAvailable {
					// filler of the offline sub stream (silence), not a published unit
					simrt.Rec("rd.filler", name, "", int64(len(pl)), int64(fm), 0)
					return nil
				}
				simrt.Violate("C17", "payload-modified", "reader %s got a payload of %d bytes on format %d", name, len(pl), fm)
				return nil
			}
			pub := int64(pl[0])
			serial := int64(pl[2])<<24 | int64(pl[3])<<16 | int64(pl[4])<<8 | int64(pl[5])
			want := w1Payload(pub, int(pl[1]), serial)
			if string(want) != string(pl) {
				simrt.Violate("C17", "payload-modified", "reader %s got payload %x", name, pl)
			}
			simrt.Rec("rd.data", name, "", serial, int64(pl[1]), pub)
			if int(pl[1]) != fm {
				simrt.Violate("C17", "wrong-format", "reader %s callback of format %d got a unit of format %d", name, fm, pl[1])
			}
			count++
			if a.SlowMs > 0 && skip == 0 {
				time.Sleep(time.Duration(a.SlowMs) * time.Millisecond)
			}
			if a.FailAt > 0 && count == a.FailAt && skip == 0 {
				return fmt.Errorf("simulated write error")
			}
			return nil
		})
	}
	res.Stream.AddReader(sr)
	simrt.Rec("rd.sadd.ret", name, a.Path, 0, 0, 0)

	// duplicate adds while attached
	for i := int64(0); i < op.N && skip == 0; i++ {
		time.Sleep(time.Duration(op.Ms/4) * time.Millisecond)
		if r.closed.Fired() {
			break
		}
		simrt.Rec("rd.readd.call", name, a.Path, 0, 0, 0)
		res2, err2 := h.pm.AddReader(defs.PathAddReaderReq{Author: r, AccessRequest: ar})
		simrt.Rec("rd.readd.ret", name, w1ErrText(err2), 0, 0, 0)
		if err2 == nil && r.closed.Fired() {
			// the path closed this reader while the second request was in flight: the
			// request has attached it again (possibly to a new path); leave at once
			simrt.Rec("rd.readd.undo", name, a.Path, 0, 0, 0)
			res2.Path.RemoveReader(defs.PathRemoveReaderReq{Author: r})
			break
		}
	}

	select {
	case <-r.closed.C():
	case <-sr.Error():
		simrt.Rec("rd.err", name, "", 0, 0, 0)
	case <-time.After(time.Duration(op.Ms) * time.Millisecond):
	}
	simrt.Rec("rd.srem.call", name, a.Path, 0, 0, 0)
	res.Stream.RemoveReader(sr)
	simrt.Rec("rd.srem.ret", name, a.Path, int64(sr.OutboundFramesDiscarded()), 0, 0)
	simrt.Rec("rd.premove.call", name, a.Path, 0, 0, 0)
	res.Path.RemoveReader(defs.PathRemoveReaderReq{Author: r})
	simrt.Rec("rd.premove.ret", name, a.Path, 0, 0, 0)
	return true
}

// ---- describe actor

type w1Nobody struct{}

func (w1Nobody) Log(level logger.Level, format string, args ...any) {}

func (h *w1Harness) runDesc(idx int, a *w1Actor) {
	name := fmt.Sprintf("desc%d", idx)
	time.Sleep(time.Duration(a.StartMs) * time.Millisecond)
	for si, op := range a.Ops {
		if simrt.Aborted() {
			return
		}
		time.Sleep(time.Duration(op.Ms) * time.Millisecond)
		id := w1UUID(4, idx*8+si)
		simrt.Rec("desc.call", name, a.Path, 0, 0, 0)
		res, err := h.pm.Describe(defs.PathDescribeReq{Author: w1Nobody{}, AccessRequest: h.accessReq(a, &id, false)})
		switch {
		case err != nil:
			simrt.Rec("desc.ret", name, err.Error(), 0, 0, 0)
		case res.Redirect != "":
			simrt.Rec("desc.ret", name, "", 2, 0, 0)
		case res.Stream != nil:
			simrt.Rec("desc.ret", name, "", 1, 0, 0)
		default:
			simrt.Rec("desc.ret", name, "", 3, 0, 0)
			simrt.Violate("C19", "success-without-stream", "Describe of %s on %s returned neither error, stream nor redirect", name, a.Path)
		}
	}
}

// ---- reload actor

func (h *w1Harness) snapshot(tag string, n int64) {
	req := pathAPIPathsListReq{res: make(chan pathAPIPathsListRes)}
	select {
	case h.pm.chAPIPathsList <- req:
		res := <-req.res
		names := make([]string, 0, len(res.paths))
		for k := range res.paths {
			names = append(names, k)
		}
		sort.Strings(names)
		for _, k := range names {
			pa := res.paths[k]
			simrt.Touch(pa)
			simrt.Rec("snap."+tag, k, pa.SafeConf().Name, n, simrt.ObjID(pa), 0)
			simrt.Rec("fwd.obs", k, w1FwdString(pa.APIForwardDestList()), simrt.ObjID(pa), 0, 0)
		}
	case <-h.pm.ctx.Done():
	}
}

func (h *w1Harness) runReload(idx int, a *w1Actor) {
	time.Sleep(time.Duration(a.StartMs) * time.Millisecond)
	for ri, op := range a.Ops {
		if simrt.Aborted() {
			return
		}
		time.Sleep(time.Duration(op.Ms) * time.Millisecond)
		v := h.versions[op.N]
		cl := v.conf.Clone()
		if err := cl.Validate(nil); err != nil {
			simrt.Violate("!", "infra-conf", "validate clone: %v", err)
			return
		}
		h.snapshot("before", int64(ri))
		simrt.Rec("reload.call", "", "", op.N, int64(ri), 0)
		h.pm.ReloadPathConfs(cl.Paths)
		simrt.Rec("reload.ret", "", "", op.N, int64(ri), 0)
		h.snapshot("after", int64(ri))
		h.authm.ReloadInternalUsers(cl.AuthInternalUsers)
		simrt.Rec("users.ret", "", "", op.N, int64(ri), 0)
		h.lastConfs = cl.Paths
	}
}

// ---- API actor

func (h *w1Harness) runAPI(idx int, a *w1Actor) {
	time.Sleep(time.Duration(a.StartMs) * time.Millisecond)
	for _, op := range a.Ops {
		if simrt.Aborted() {
			return
		}
		time.Sleep(time.Duration(op.Ms) * time.Millisecond)
		switch op.Op {
		case "list":
			l, err := h.pm.APIPathsList()
			if err == nil {
				for _, it := range l.Items {
					h.recAPIPath(&it)
				}
			}
		case "get":
			it, err := h.pm.APIPathsGet("s1")
			if err == nil {
				h.recAPIPath(it)
			}
		default:
			h.snapshot("poll", -1)
		}
	}
}

func (h *w1Harness) recAPIPath(it *defs.APIPath) {
	src := ""
	if it.Source != nil {
		src = string(it.Source.Type) + ":" + it.Source.ID
	}
	av := int64(0)
	if it.Available {
		av = 1
	}
	simrt.Rec("api.path", it.Name, it.ConfName+"|"+src, int64(len(it.Readers)), av, 0)
}

func w1FwdString(l *defs.APIForwardDestList) string {
	var sb []string
	for _, it := range l.Items {
		sb = append(sb, fmt.Sprintf("%d=%s=%s=%s", it.Pos, it.Conf.Dest, it.ID.String()[:8], it.State))
	}
	return strings.Join(sb, ",")
}

// ---- simulated pulled source

func (h *w1Harness) srcRun(s *ssrtp.Source, params defs.StaticSourceRunParams) error {
	tag := strings.TrimPrefix(params.Conf.RTPSDP, "simsrc ")
	inst := h.nextSrc.Add(1)
	simrt.Rec("src.run", tag, "", inst, 0, 0)
	defer simrt.Rec("src.exit", tag, "", inst, 0, 0)
	me := &w1SrcInst{src: s, inst: inst, conf: params.Conf, live: true}
	h.srcMu.Lock()
	h.srcInsts = append(h.srcInsts, me)
	h.srcMu.Unlock()
	defer func() {
		h.srcMu.Lock()
		me.live = false
		h.srcMu.Unlock()
	}()
	d := []time.Duration{0, 10 * time.Millisecond, 300 * time.Millisecond, 2 * time.Second, 20 * time.Second}[simrt.Choose("src.delay", 5)]
	for dl := time.After(d); dl != nil; {
		select {
		case <-dl:
			dl = nil
		case nc := <-params.ReloadConf:
			simrt.Rec("src.reload", tag, "", inst, 0, 0)
			h.srcMu.Lock()
			me.conf = nc
			h.srcMu.Unlock()
		case <-params.Context.Done():
			return fmt.Errorf("terminated")
		}
	}
	if simrt.Flip("src.dialfail", h.body.SrcDialP) {
		simrt.Count("fault.src.dialfail", 1)
		return fmt.Errorf("sim: connection refused")
	}
	desc := h.mkDesc()
	simrt.Rec("src.ready.call", tag, "", inst, 0, 0)
	res := s.Parent.SetReady(defs.PathSourceStaticSetReadyReq{Desc: desc, UseRTPPackets: false, ReplaceNTP: true})
	if res.Err != nil {
		simrt.Rec("src.ready.ret", tag, res.Err.Error(), inst, 0, 0)
		return res.Err
	}
	simrt.Rec("src.ready.ret", tag, "", inst, 1, 0)
	defer func() {
		simrt.Rec("src.notready.call", tag, "", inst, 0, 0)
		s.Parent.SetNotReady(defs.PathSourceStaticSetNotReadyReq{})
		simrt.Rec("src.notready.ret", tag, "", inst, 0, 0)
	}()
	pub := 100 + inst%100
	for i := int64(0); ; i++ {
		var tick <-chan time.Time
		if i < 24 {
			tick = time.After(250 * time.Millisecond)
		}
		select {
		case <-params.Context.Done():
			return fmt.Errorf("terminated")
		case nc := <-params.ReloadConf:
			simrt.Rec("src.reload", tag, "", inst, 0, 0)
			h.srcMu.Lock()
			me.conf = nc
			h.srcMu.Unlock()
			continue
		case <-tick:
		}
		if simrt.Flip("src.fail", h.body.SrcFailP) {
			simrt.Count("fault.src.fail", 1)
			return fmt.Errorf("sim: read error")
		}
		w1WriteUnit(res.SubStream, desc, fmt.Sprintf("src%d", inst), pub, int(i%2), i, i*160)
	}
}

// ---- simulated forwarder

func (h *w1Harness) fwdRun(d *fwrtmp.Dest, ctx context.Context) error {
	inst := h.fwdSeq.Add(1)
	simrt.Rec("fwd.run", d.Dest, "", inst, 0, 0)
	defer simrt.Rec("fwd.exit", d.Dest, "", inst, 0, 0)
	if simrt.Flip("fwd.dialfail", h.body.FwdFailP) {
		simrt.Count("fault.fwd.dialfail", 1)
		select {
		case <-time.After(100 * time.Millisecond):
		case <-ctx.Done():
		}
		return fmt.Errorf("sim: dial error")
	}
	var fail <-chan time.Time
	if simrt.Flip("fwd.latefail", h.body.FwdFailP/2) {
		simrt.Count("fault.fwd.latefail", 1)
		fail = time.After(2 * time.Second)
	}
	select {
	case <-ctx.Done():
		if simrt.Flip("fwd.slowstop", 0.2) {
			time.Sleep(500 * time.Millisecond)
		}
		return fmt.Errorf("terminated")
	case <-fail:
		return fmt.Errorf("sim: write error")
	}
}

// ---- simulated hook processes

func (h *w1Harness) procRun(cmdstr string, env externalcmd.Environment, terminate chan struct{}) (int, bool) {
	kind := strings.TrimPrefix(cmdstr, "simhook ")
	pathName := env["MTX_PATH"]
	inst := h.procSeq.Add(1)
	simrt.Rec("proc.start", kind, pathName, inst, 0, 0)
	switch kind {
	case "undemand", "unavail", "offline":
		select {
		case <-time.After(20 * time.Millisecond):
		case <-terminate:
			simrt.Rec("proc.term", kind, pathName, inst, 0, 0)
			return 0, true
		}
		simrt.Rec("proc.exit", kind, pathName, inst, 0, 0)
		return 0, false
	}
	var early <-chan time.Time
	code := 0
	if simrt.Flip("proc.early", h.body.HookExitP) {
		simrt.Count("fault.proc.early", 1)
		early = time.After([]time.Duration{time.Millisecond, 300 * time.Millisecond, 4 * time.Second}[simrt.Choose("proc.when", 3)])
		code = simrt.Choose("proc.code", 2)
	}
	if kind == "demand" {
		// the on-demand command publishes to the path, like an ffmpeg would
		done := make(chan struct{})
		stop := simrt.NewSignal()
		go h.demandPublisher(pathName, inst, stop, done)
		defer func() {
			stop.Fire()
			<-done
		}()
	}
	select {
	case <-terminate:
		simrt.Rec("proc.term", kind, pathName, inst, 0, 0)
		return 0, true
	case <-early:
		simrt.Rec("proc.exit", kind, pathName, inst, int64(code), 0)
		return code, false
	}
}

func (h *w1Harness) demandPublisher(pathName string, inst int64, stop *simrt.Signal, done chan struct{}) {
	defer close(done)
	name := fmt.Sprintf("dpub%d", inst)
	d := []time.Duration{0, 20 * time.Millisecond, 500 * time.Millisecond, 4 * time.Second, 30 * time.Second}[simrt.Choose("dpub.delay", 5)]
	select {
	case <-time.After(d):
	case <-stop.C():
		return
	}
	p := &w1Pub{h: h, idx: 200 + int(inst), name: name, id: w1UUID(5, int(inst)), closed: simrt.NewSignal()}
	simrt.Touch(p)
	desc := h.mkDesc()
	simrt.Rec("pub.add.call", name, pathName, 1, 0, 0)
	res, err := h.pm.AddPublisher(defs.PathAddPublisherReq{
		Author: p, Desc: desc, ReplaceNTP: true,
		AccessRequest: defs.PathAccessRequest{Name: pathName, Publish: true, SkipAuth: true},
	})
	if err != nil {
		simrt.Rec("pub.add.ret", name, pathName, 0, 0, 0)
		return
	}
	simrt.Touch(res.Path)
	simrt.Rec("pub.add.ret", name, pathName, 1, simrt.ObjID(res.Path), 0)
	for i := int64(0); i < 16; i++ {
		select {
		case <-time.After(250 * time.Millisecond):
		case <-stop.C():
		case <-p.closed.C():
		}
		if stop.Fired() || p.closed.Fired() {
			break
		}
		w1WriteUnit(res.SubStream, desc, name, int64(200+inst%50), int(i%2), i, i*160)
	}
	select {
	case <-stop.C():
	case <-p.closed.C():
	}
	simrt.Rec("pub.remove.call", name, pathName, 0, 0, 0)
	res.Path.RemovePublisher(defs.PathRemovePublisherReq{Author: p})
	simrt.Rec("pub.remove.ret", name, pathName, 0, 0, 0)
}

// ---- main

func (h *w1Harness) main() {
	dir, err := os.MkdirTemp("", "w1-")
	if err != nil {
		simrt.Violate("!", "infra", "mkdtemp: %v", err)
		return
	}
	h.dir = dir
	defer os.RemoveAll(dir)
	if err = h.loadVersions(); err != nil {
		simrt.Violate("!", "infra-conf", "%v", err)
		return
	}
	externalcmd.SimRun = h.procRun
	ssrtp.SimRun = h.srcRun
	fwrtmp.SimRun = h.fwdRun

	c0 := h.versions[0].conf.Clone()
	if err = c0.Validate(nil); err != nil {
		simrt.Violate("!", "infra-conf", "validate clone: %v", err)
		return
	}
	h.authm = &auth.Manager{Method: conf.AuthMethodInternal, InternalUsers: c0.AuthInternalUsers, ReadTimeout: 10 * time.Second}
	h.pool = &externalcmd.Pool{}
	h.pool.Initialize()
	h.lastConfs = c0.Paths
	h.pm = &pathManager{
		logLevel:          conf.LogLevel(logger.Debug),
		rtspAddress:       ":8554",
		readTimeout:       c0.ReadTimeout,
		writeTimeout:      c0.WriteTimeout,
		writeQueueSize:    c0.WriteQueueSize,
		udpReadBufferSize: c0.UDPReadBufferSize,
		udpMaxPayloadSize: c0.UDPMaxPayloadSize,
		rtpMaxPayloadSize: 1400,
		pathConfs:         c0.Paths,
		authManager:       &w1AuthProxy{m: h.authm},
		externalCmdPool:   h.pool,
		parent:            h,
	}
	h.pm.initialize()
	simrt.Rec("init.done", "", "", 0, 0, 0)
	// which (name, version, version) triples resolve to equal configurations
	seenName := map[string]bool{}
	for _, a := range h.body.Actors {
		if a.Path == "" || seenName[a.Path] {
			continue
		}
		seenName[a.Path] = true
		for i := range h.versions {
			for j := range h.versions {
				ci, _, e1 := conf.FindPathConf(h.versions[i].paths, a.Path)
				cj, _, e2 := conf.FindPathConf(h.versions[j].paths, a.Path)
				if e1 == nil && e2 == nil {
					eq := int64(0)
					if ci.Equal(cj) {
						eq = 1
					}
					simrt.Rec("confeq", a.Path, "", int64(i), int64(j), eq)
				}
			}
		}
	}

	var wg sync.WaitGroup
	for i := range h.body.Actors {
		a := &h.body.Actors[i]
		i := i
		wg.Add(1)
		switch a.Kind {
		case "pub":
			go func() { defer wg.Done(); h.runPub(i, a) }()
		case "rd":
			go func() { defer wg.Done(); h.runReader(i, a) }()
		case "desc":
			go func() { defer wg.Done(); h.runDesc(i, a) }()
		case "reload":
			go func() { defer wg.Done(); h.runReload(i, a) }()
		case "api":
			go func() { defer wg.Done(); h.runAPI(i, a) }()
		default:
			wg.Done()
		}
	}
	wg.Wait()
	simrt.Rec("actors.done", "", "", 0, 0, 0)
	if simrt.Aborted() {
		return
	}
	// faults stop here (no more stalled clocks, no more delayed goroutines); the final checks
	// run after the quiet period, once everything in flight has been digested
	simrt.Calm()
	time.Sleep(time.Duration(h.body.TailMs) * time.Millisecond)
	simrt.Settle()
	simrt.Rec("epilogue", "", "", 0, 0, 0)
	h.finalChecks()
	simrt.Rec("shutdown.call", "", "", 0, 0, 0)
	h.pm.close()
	h.pool.Close()
	simrt.Rec("shutdown.ret", "", "", 0, 0, 0)
}

// finalChecks compares the live paths with the configuration passed to the
// last reload (C15) and the forward lists with the configured ones (C39).
func (h *w1Harness) finalChecks() {
	req := pathAPIPathsListReq{res: make(chan pathAPIPathsListRes)}
	h.pm.chAPIPathsList <- req
	res := <-req.res
	names := make([]string, 0, len(res.paths))
	for k := range res.paths {
		names = append(names, k)
	}
	sort.Strings(names)
	cnames := make([]string, 0, len(h.lastConfs))
	for k := range h.lastConfs {
		cnames = append(cnames, k)
	}
	sort.Strings(cnames)
	for _, cn := range cnames {
		pc := h.lastConfs[cn]
		if pc.Regexp == nil {
			if _, ok := res.paths[cn]; !ok {
				simrt.Violate("C15", "static-path-missing", "static configuration %q has no live path after the last reload", cn)
			}
		}
	}
	for _, n := range names {
		pa := res.paths[n]
		want, wantMatches, err := conf.FindPathConf(h.lastConfs, n)
		if err != nil {
			simrt.Violate("C15", "orphan-path", "live path %q does not resolve to any configuration: %v", n, err)
			continue
		}
		got := pa.SafeConf()
		if !got.Equal(want) {
			simrt.Violate("C15", "stale-conf", "live path %q runs with configuration %q (forward=%v maxReaders=%d) but resolution selects %q (forward=%v maxReaders=%d)",
				n, got.Name, got.Forward, got.MaxReaders, want.Name, want.Forward, want.MaxReaders)
		}
		// capture groups are the sub-matches (index 0 is the whole name)
		gotG, wantG := []string{}, []string{}
		if len(pa.matches) > 1 {
			gotG = pa.matches[1:]
		}
		if len(wantMatches) > 1 {
			wantG = wantMatches[1:]
		}
		if fmt.Sprint(gotG) != fmt.Sprint(wantG) {
			simrt.Violate("C15", "stale-matches", "live path %q has capture groups %q but resolution selects %q (conf %q)",
				n, pa.matches, wantMatches, want.Name)
		}
		// a pulled source that is running for this path runs with the configuration of the path:
		// the one it was started with, or the last one delivered to it since
		h.srcMu.Lock()
		for _, si := range h.srcInsts {
			hd, ok := si.src.Parent.(*staticsources.Handler)
			if !si.live || !ok || hd.Parent != pa {
				continue
			}
			if si.conf == nil || !si.conf.Equal(want) {
				nm, fw := "<nil>", conf.Forward(nil)
				if si.conf != nil {
					nm, fw = si.conf.Name, si.conf.Forward
				}
				simrt.Violate("C15", "source-conf-stale", "live path %q: its source (run %d) runs with configuration %q (forward=%v) but resolution selects %q (forward=%v)",
					n, si.inst, nm, fw, want.Name, want.Forward)
			}
		}
		h.srcMu.Unlock()
		// forward list of the path vs configuration
		l := pa.APIForwardDestList()
		if len(l.Items) != len(want.Forward) {
			simrt.Violate("C39", "fwd-list-mismatch", "path %q lists %d forward destinations, configuration has %d", n, len(l.Items), len(want.Forward))
			continue
		}
		for i, it := range l.Items {
			if it.Conf != want.Forward[i] || it.Pos != i+1 {
				simrt.Violate("C39", "fwd-list-mismatch", "path %q forward entry %d is %+v pos %d, configuration has %+v", n, i, it.Conf, it.Pos, want.Forward[i])
			}
		}
		simrt.Rec("final.path", n, got.Name, int64(len(l.Items)), simrt.ObjID(pa), 0)
	}
}

// Run executes one scenario.
func (w *w1World) Run(t *testing.T, sc *simrt.Scenario, cfg simrt.Config) simrt.Outcome {
	var body w1Body
	if err := json.Unmarshal(sc.Body, &body); err != nil {
		return simrt.Outcome{Violations: []simrt.Violation{{Property: "!", Clause: "bad-scenario", Detail: err.Error()}}}
	}
	h := &w1Harness{body: &body, prop: sc.Property}
	res := simrt.Run(t, cfg, h.main)
	out := simrt.Outcome{Res: res}
	out.Violations = append(out.Violations, res.Violations...)
	if !res.StepCap {
		out.Violations = append(out.Violations, w1Oracles(&body, &res, cfg)...)
	} else {
		// inconclusive for everything that needs the end of the run; clauses that only look at a
		// prefix of the history still apply
		v := &w1Viol{seen: map[string]bool{}}
		w1C18Destroy(w1Parse(res.History), v)
		out.Violations = append(out.Violations, v.out...)
	}
	out.Nontrivial, out.Abstract = w1Classify(&body, &res, sc.Property)
	return out
}
