package core

import (
	"fmt"
	"testing"

	"github.com/bluenviron/mediamtx/internal/zzsim/simrt"
)

func simWorldMain(t *testing.T) {
	res := simrt.Run(t, simrt.Config{Seed: 1, Strategy: "random", LogEvents: true}, func() {
		simrt.Event("hello")
	})
	fmt.Printf("%+v\n", res)
}
