package ntpestimator

// S1: the real NTP estimator under a simulated wall clock (steady, drifting,
// jumping forward and backward) and simulated frame timestamps (regular,
// stalled, jumping, going backwards, wrapping), through the timeNow seam.

import (
	"encoding/json"
	"fmt"
	"math/big"
	"math/rand"
	"testing"
	"time"
	"unsafe"

	"github.com/bluenviron/mediamtx/internal/zzsim/simrt"
)

func simWorldMain(t *testing.T) { simrt.WorkerMain(t, &s1World{}) }

type s1Op struct {
	// wall clock movement before the frame, in ns (negative = the clock is set back)
	WallNs int64 `json:"wall_ns"`
	// whether the movement is the regular passing of time (no jump)
	Steady bool `json:"steady"`
	// frame timestamp increment in clock-rate ticks (can be 0 or negative)
	PTSDelta int64 `json:"pts_delta"`
	// the part of WallNs that also passes on the monotonic clock (a jump of the wall clock does not)
	MonoNs int64 `json:"mono_ns"`
}

type s1Body struct {
	ClockRate int    `json:"clock_rate"`
	StartPTS  int64  `json:"start_pts"`
	Ops       []s1Op `json:"ops"`
	Jumps     int    `json:"jumps"`
	// the clock readings carry a monotonic part, like those of time.Now
	Mono bool `json:"mono"`
}

type s1World struct{}

func (w *s1World) Gen(rng *rand.Rand, property, tier string) (any, simrt.Sched) {
	b := &s1Body{
		ClockRate: []int{90000, 48000, 8000, 1000, 44100, 1, 1000000000}[rng.Intn(7)],
		StartPTS:  []int64{0, 0, 12345, 1 << 32, -5000, 1<<62 - 10}[rng.Intn(6)],
	}
	n := 20 + rng.Intn(200)
	frameTicks := int64(b.ClockRate) / int64([]int{25, 30, 50, 100, 1}[rng.Intn(5)])
	if frameTicks == 0 {
		frameTicks = 1
	}
	driftPPM := []int64{0, 0, 100, -100, 500, -500, 20000}[rng.Intn(7)]
	jumpP := []float64{0, 0.01, 0.05, 0.2}[rng.Intn(4)]
	for i := 0; i < n; i++ {
		op := s1Op{Steady: true, PTSDelta: frameTicks}
		// the time one frame takes on the wall clock, with drift and jitter
		num := new(big.Int).Mul(big.NewInt(frameTicks), big.NewInt(1_000_000_000))
		op.WallNs = new(big.Int).Div(num, big.NewInt(int64(b.ClockRate))).Int64()
		op.WallNs += op.WallNs * driftPPM / 1_000_000
		if rng.Intn(4) == 0 {
			op.WallNs += int64(rng.Intn(2_000_000)) // scheduling jitter, up to 2 ms
		}
		op.MonoNs = op.WallNs
		switch {
		case rng.Float64() < jumpP:
			// the wall clock jumps
			op.Steady = false
			b.Jumps++
			mag := []int64{1e6, 1e8, 1e9, 4e9, 5e9, 6e9, 3600e9}[rng.Intn(7)]
			if rng.Intn(2) == 0 {
				mag = -mag
			}
			op.WallNs += mag
		case rng.Float64() < jumpP:
			// the frame timestamps jump, stall, go back or wrap
			b.Jumps++
			op.PTSDelta = []int64{0, -frameTicks, frameTicks * 100, frameTicks * 100000, -frameTicks * 1000, 1 << 32, -(1 << 32), 1 << 62}[rng.Intn(8)]
		}
		b.Ops = append(b.Ops, op)
	}
	b.Mono = rng.Intn(2) == 0 // drawn last: the operations above are those of earlier versions
	sched := simrt.DefaultSched(rng)
	sched.StallProb = 0
	return b, sched
}

func s1Exact(dpts int64, rate int) *big.Int {
	// floor toward zero of dpts * 1e9 / rate
	num := new(big.Int).Mul(big.NewInt(dpts), big.NewInt(1_000_000_000))
	return new(big.Int).Quo(num, big.NewInt(int64(rate)))
}

func (w *s1World) Run(t *testing.T, sc *simrt.Scenario, cfg simrt.Config) simrt.Outcome {
	var b s1Body
	if err := json.Unmarshal(sc.Body, &b); err != nil {
		return simrt.Outcome{Violations: []simrt.Violation{{Property: "!", Clause: "bad-scenario", Detail: err.Error()}}}
	}
	if b.Mono && !s1MonoWorks() {
		return simrt.Outcome{Violations: []simrt.Violation{{Property: "!", Clause: "mono-layout", Detail: "the layout of time.Time is not the one s1WithMono assumes"}}}
	}
	var vs []simrt.Violation
	add := func(clause, format string, args ...any) {
		if len(vs) < 10 {
			vs = append(vs, simrt.Violation{Property: "C25", Clause: clause, Detail: fmt.Sprintf(format, args...)})
		}
	}
	rereferences := 0
	res := simrt.Run(t, cfg, func() {
		wall := time.Date(2024, 3, 1, 12, 0, 0, 0, time.UTC)
		old := timeNow
		mono := int64(1_000_000_000)
		withMono := b.Mono && s1MonoWorks()
		timeNow = func() time.Time {
			if withMono {
				return s1WithMono(wall, mono)
			}
			return wall
		}
		defer func() { timeNow = old }()
		e := &Estimator{ClockRate: b.ClockRate}
		pts := b.StartPTS
		var prev time.Time
		var prevPTS int64
		have := false
		for i, op := range b.Ops {
			wall = wall.Add(time.Duration(op.WallNs))
			mono += op.MonoNs
			pts += op.PTSDelta // wraps like the int64 of the implementation
			r := e.Estimate(pts).Round(0) // the oracle reads the wall clock only
			if r.After(wall) {
				add("in-the-future", "call %d: estimate %s is later than the wall clock %s", i, r.Format(time.RFC3339Nano), wall.Format(time.RFC3339Nano))
			}
			if r.Before(wall.Add(-5 * time.Second)) {
				add("too-old", "call %d: estimate %s is more than 5 s behind the wall clock %s", i, r.Format(time.RFC3339Nano), wall.Format(time.RFC3339Nano))
			}
			if r.Equal(wall) {
				rereferences++
			}
			if have && op.Steady && op.PTSDelta > 0 && op.WallNs >= 0 {
				d := s1Exact(pts-prevPTS, b.ClockRate)
				if d.IsInt64() && pts > prevPTS {
					exp := prev.Add(time.Duration(d.Int64()))
					// the difference must be kept unless that would leave the window
					lo, hi := wall.Add(-5*time.Second), wall
					inside := exp.After(lo.Add(2)) && exp.Before(hi.Add(-2))
					diff := r.Sub(exp)
					if inside && (diff > 1 || diff < -1) {
						add("difference-not-kept", "call %d: the clock ran steadily (+%s) and the frame timestamp advanced by %d ticks (= %s at %d Hz) but the estimate moved from %s to %s (%s)",
							i, time.Duration(op.WallNs), pts-prevPTS, time.Duration(d.Int64()), b.ClockRate, prev.Format(time.RFC3339Nano), r.Format(time.RFC3339Nano), r.Sub(prev))
					}
				}
			}
			prev, prevPTS, have = r, pts, true
		}
	})
	out := simrt.Outcome{Res: res}
	out.Violations = append(append(out.Violations, res.Violations...), vs...)
	out.Nontrivial = b.Jumps > 0
	out.Abstract = []string{fmt.Sprintf("rate%d jumps%d rr%d", b.ClockRate, s1Bucket(b.Jumps), s1Bucket(rereferences)), fmt.Sprintf("%d-%d-%d", sc.GenSeed, b.Jumps, rereferences)}
	return out
}

// s1WithMono builds the reading time.Now would return at wall instant w when the monotonic
// clock of the process shows mono: a step of the system clock moves the first and not the
// second, and time.Time compares two such readings by the second. There is no exported
// constructor; the layout of time.Time (wall, ext, loc) is checked by s1MonoWorks and the
// plain reading is used if it ever changes.
func s1WithMono(w time.Time, mono int64) time.Time {
	const wallToInternal = (1884*365 + 1884/4 - 1884/100 + 1884/400) * 86400
	const unixToInternal = (1969*365 + 1969/4 - 1969/100 + 1969/400) * 86400
	sec := w.Unix() + unixToInternal - wallToInternal
	raw := struct {
		wall uint64
		ext  int64
		loc  *time.Location
	}{wall: 1<<63 | uint64(sec)<<30 | uint64(w.Nanosecond()), ext: mono}
	return *(*time.Time)(unsafe.Pointer(&raw))
}

var s1MonoOK = func() bool {
	if unsafe.Sizeof(time.Time{}) != 2*8+unsafe.Sizeof(uintptr(0)) {
		return false
	}
	w := time.Date(2024, 3, 1, 12, 0, 0, 123456789, time.UTC)
	t1 := s1WithMono(w, 100)
	t2 := s1WithMono(w.Add(10*time.Second), 50)
	return t1.Round(0).Equal(w) && t2.Round(0).Equal(w.Add(10*time.Second)) && t1.After(t2) && t2.Round(0).After(t1.Round(0)) &&
		t2.Sub(t1) == -50 && t1.Add(time.Second).Round(0).Equal(w.Add(time.Second))
}()

func s1MonoWorks() bool { return s1MonoOK }

func s1Bucket(n int) int {
	switch {
	case n == 0:
		return 0
	case n < 3:
		return 1
	case n < 10:
		return 2
	}
	return 3
}
