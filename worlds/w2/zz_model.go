package core

// Sequential reference model of the configuration API (C12), written from the
// documentation, and the linearizability check (porcupine) of a recorded
// history against it. Not instrumented.

import (
	"encoding/json"
	"fmt"
	"sort"
	"strconv"
	"strings"
	"time"

	"github.com/bluenviron/mediamtx/internal/zzsim/porcupine"
	"github.com/bluenviron/mediamtx/internal/zzsim/simrt"
)

// w2Op is one API operation of the workload.
type w2Op struct {
	Kind   string            `json:"kind"` // read global defaults add patch replace delete
	Name   string            `json:"name,omitempty"`
	Fields map[string]string `json:"fields,omitempty"` // canonical values: integers, booleans, durations in seconds, strings
	GapMs  int64             `json:"gap_ms,omitempty"`
}

var w2GlobalFields = []string{"logLevel", "readTimeout", "writeQueueSize", "udpMaxPayloadSize"}
var w2PathFields = []string{"maxReaders", "overridePublisher", "recordDeleteAfter", "recordSegmentDuration"}

// w2State is the tracked part of the configuration.
type w2State struct {
	G map[string]string
	D map[string]string
	P map[string]map[string]string // explicit settings per path
}

func (s *w2State) clone() *w2State {
	n := &w2State{G: map[string]string{}, D: map[string]string{}, P: map[string]map[string]string{}}
	for k, v := range s.G {
		n.G[k] = v
	}
	for k, v := range s.D {
		n.D[k] = v
	}
	for name, m := range s.P {
		nm := map[string]string{}
		for k, v := range m {
			nm[k] = v
		}
		n.P[name] = nm
	}
	return n
}

func w2SortedKeys[V any](m map[string]V) []string {
	ks := make([]string, 0, len(m))
	for k := range m {
		ks = append(ks, k)
	}
	sort.Strings(ks)
	return ks
}

// encode renders the full state (explicit settings included): the model state of porcupine.
func (s *w2State) encode() string {
	var sb strings.Builder
	for _, k := range w2GlobalFields {
		sb.WriteString("g." + k + "=" + s.G[k] + ";")
	}
	for _, k := range w2PathFields {
		sb.WriteString("d." + k + "=" + s.D[k] + ";")
	}
	for _, name := range w2SortedKeys(s.P) {
		sb.WriteString("p[" + name + "]{")
		for _, k := range w2SortedKeys(s.P[name]) {
			sb.WriteString(k + "=" + s.P[name][k] + ";")
		}
		sb.WriteString("}")
	}
	return sb.String()
}

func w2Decode(enc string) *w2State {
	s := &w2State{G: map[string]string{}, D: map[string]string{}, P: map[string]map[string]string{}}
	rest := enc
	for rest != "" {
		switch {
		case strings.HasPrefix(rest, "g."), strings.HasPrefix(rest, "d."):
			i := strings.Index(rest, ";")
			kv := strings.SplitN(rest[2:i], "=", 2)
			if rest[0] == 'g' {
				s.G[kv[0]] = kv[1]
			} else {
				s.D[kv[0]] = kv[1]
			}
			rest = rest[i+1:]
		case strings.HasPrefix(rest, "p["):
			i := strings.Index(rest, "]{")
			name := rest[2:i]
			j := strings.Index(rest, "}")
			m := map[string]string{}
			for _, item := range strings.Split(rest[i+2:j], ";") {
				if item != "" {
					kv := strings.SplitN(item, "=", 2)
					m[kv[0]] = kv[1]
				}
			}
			s.P[name] = m
			rest = rest[j+1:]
		default:
			return s
		}
	}
	return s
}

// view is what a read returns: global, defaults and the effective settings of every path.
func (s *w2State) view() string {
	var sb strings.Builder
	for _, k := range w2GlobalFields {
		sb.WriteString("g." + k + "=" + s.G[k] + ";")
	}
	for _, k := range w2PathFields {
		sb.WriteString("d." + k + "=" + s.D[k] + ";")
	}
	for _, name := range w2SortedKeys(s.P) {
		sb.WriteString("p[" + name + "]{")
		for _, k := range w2PathFields {
			v, ok := s.P[name][k]
			if !ok {
				v = s.D[k]
			}
			sb.WriteString(k + "=" + v + ";")
		}
		sb.WriteString("}")
	}
	return sb.String()
}

func w2Atoi(s string) int64 {
	v, _ := strconv.ParseInt(s, 10, 64)
	return v
}

// valid implements the documented constraints on the tracked parameters.
func (s *w2State) valid() bool {
	q := w2Atoi(s.G["writeQueueSize"])
	if q <= 0 || q&(q-1) != 0 {
		return false
	}
	if w2Atoi(s.G["udpMaxPayloadSize"]) > 1472 {
		return false
	}
	if w2Atoi(s.G["readTimeout"]) <= 0 {
		return false
	}
	switch s.G["logLevel"] {
	case "error", "warn", "info", "debug":
	default:
		return false
	}
	for name, m := range s.P {
		if !w2ValidName(name) {
			return false
		}
		eff := func(k string) int64 {
			if v, ok := m[k]; ok {
				return w2Atoi(v)
			}
			return w2Atoi(s.D[k])
		}
		seg, del := eff("recordSegmentDuration"), eff("recordDeleteAfter")
		if seg > int64(24*time.Hour/time.Second) {
			return false
		}
		if del != 0 && del < seg {
			return false
		}
	}
	return true
}

func w2ValidName(name string) bool {
	if name == "" || name[0] == '/' || name[len(name)-1] == '/' {
		return false
	}
	for _, c := range name {
		ok := c >= 'a' && c <= 'z' || c >= 'A' && c <= 'Z' || c >= '0' && c <= '9' || c == '_' || c == '-' || c == '.' || c == '/'
		if !ok {
			return false
		}
	}
	for _, seg := range strings.Split(name, "/") {
		if seg == "." || seg == ".." {
			return false
		}
	}
	return true
}

// apply computes the state after op; ok reports whether the edit is accepted.
func (s *w2State) apply(op *w2Op) (*w2State, bool) {
	n := s.clone()
	switch op.Kind {
	case "global":
		for k, v := range op.Fields {
			n.G[k] = v
		}
	case "defaults":
		for k, v := range op.Fields {
			n.D[k] = v
		}
	case "add":
		if _, ok := n.P[op.Name]; ok {
			return s, false
		}
		n.P[op.Name] = map[string]string{}
		for k, v := range op.Fields {
			n.P[op.Name][k] = v
		}
	case "patch":
		if _, ok := n.P[op.Name]; !ok {
			return s, false
		}
		for k, v := range op.Fields {
			n.P[op.Name][k] = v
		}
	case "replace":
		n.P[op.Name] = map[string]string{}
		for k, v := range op.Fields {
			n.P[op.Name][k] = v
		}
	case "delete":
		if _, ok := n.P[op.Name]; !ok {
			return s, false
		}
		delete(n.P, op.Name)
	}
	if !n.valid() {
		return s, false
	}
	return n, true
}

// payload renders the JSON body an API client would send for op.
func (op *w2Op) payload() string {
	m := map[string]any{}
	for k, v := range op.Fields {
		switch k {
		case "logLevel":
			m[k] = v
		case "overridePublisher":
			m[k] = v == "true"
		case "readTimeout", "recordDeleteAfter", "recordSegmentDuration":
			m[k] = v + "s"
		default:
			m[k] = w2Atoi(v)
		}
	}
	b, _ := json.Marshal(m)
	return string(b)
}

type w2Out struct {
	OK   bool
	View string
}

type w2HistOp struct {
	client     int
	op         *w2Op
	call, ret  int64
	out        w2Out
	storeAfter int64 // seq at which the configuration of this successful edit became current
	errText    string
}

func w2Model(init string) porcupine.Model {
	return porcupine.Model{
		Init: func() interface{} { return init },
		Step: func(state, input, output interface{}) (bool, interface{}) {
			s := w2Decode(state.(string))
			op := input.(*w2Op)
			out := output.(w2Out)
			if op.Kind == "read" {
				return out.View == s.view(), state
			}
			n, ok := s.apply(op)
			if ok != out.OK {
				return false, state
			}
			return true, n.encode()
		},
		Equal: func(a, b interface{}) bool { return a.(string) == b.(string) },
	}
}

// w2Check decides a recorded history. It returns violations of C12.
func w2Check(init string, hist []*w2HistOp) []simrt.Violation {
	mk := func(extend bool) []porcupine.Operation {
		var ops []porcupine.Operation
		for _, h := range hist {
			ret := h.ret
			if extend && h.op.Kind != "read" && h.out.OK && h.storeAfter > ret {
				ret = h.storeAfter
			}
			ops = append(ops, porcupine.Operation{ClientId: h.client, Input: h.op, Call: h.call, Output: h.out, Return: ret})
		}
		return ops
	}
	model := w2Model(init)
	res := porcupine.CheckOperationsTimeout(model, mk(false), 20*time.Second)
	if res != porcupine.Illegal {
		return nil // Ok, or Unknown (timed out): inconclusive, never reported
	}
	describe := func() string {
		var sb strings.Builder
		for _, h := range hist {
			fmt.Fprintf(&sb, "  client %d [%d,%d] %s %s %s -> ", h.client, h.call, h.ret, h.op.Kind, h.op.Name, h.op.payload())
			if h.op.Kind == "read" {
				sb.WriteString(h.out.View)
			} else {
				if h.out.OK {
					fmt.Fprintf(&sb, "accepted (current at %d)", h.storeAfter)
				} else {
					fmt.Fprintf(&sb, "rejected: %s", h.errText)
				}
			}
			sb.WriteString("\n")
		}
		return sb.String()
	}
	// Is it only that a successful edit is acknowledged before it becomes what reads return?
	if porcupine.CheckOperationsTimeout(model, mk(true), 20*time.Second) == porcupine.Ok {
		return []simrt.Violation{{Property: "C12", Clause: "acknowledged-edit-not-yet-readable",
			Detail: "the history is not linearizable against the sequential configuration model, but it is once every successful edit is considered to return only when its configuration has become the one reads return: a read issued after the acknowledgement of an edit returned the previous configuration\ninitial: " + init + "\n" + describe()}}
	}
	return []simrt.Violation{{Property: "C12", Clause: "not-linearizable",
		Detail: "the history of configuration edits and reads is not linearizable against the sequential configuration model\ninitial: " + init + "\n" + describe()}}
}

// w2Current returns the configuration reads return right now (no scheduling point: usable in scheduler context).
func w2Current(p *Core) any { return p.conf.Load() }
