package core

// W2 "coreworld": the real Core (New / run / reloadConf / closeResources /
// createResources / doAPIConfig*) with every socket-owning server disabled by
// configuration, the real path manager, configuration watcher (over the
// simulated fsnotify) and record cleaner, under the simrt scheduler.
// Workload for C12: concurrent API clients edit and read the configuration.

import (
	"bytes"
	"encoding/json"
	"fmt"
	"math/rand"
	"os"
	"os/signal"
	"path/filepath"
	"sync"
	"sync/atomic"
	"testing"
	"time"

	"github.com/bluenviron/mediamtx/internal/conf"
	"github.com/bluenviron/mediamtx/internal/conf/jsonwrapper"
	"github.com/bluenviron/mediamtx/internal/zzsim/fsnotify"
	"github.com/bluenviron/mediamtx/internal/zzsim/simrt"
)

func simWorldMain(t *testing.T) { simrt.WorkerMain(t, &w2World{}) }

type w2Client struct {
	Kind string `json:"kind"` // client; nop (left by the shrinker)
	Ops  []w2Op `json:"ops"`
}

type w2Body struct {
	Clients []w2Client `json:"actors"`
}

type w2World struct{}

func (w *w2World) Gen(rng *rand.Rand, property, tier string) (any, simrt.Sched) {
	b := &w2Body{}
	nc := 1 + rng.Intn(3)
	total := 4 + rng.Intn(9)
	uniq := int64(0)
	names := []string{"p1", "p1", "p2", "p3"}
	for c := 0; c < nc; c++ {
		b.Clients = append(b.Clients, w2Client{Kind: "client"})
	}
	for i := 0; i < total; i++ {
		c := rng.Intn(nc)
		uniq++
		op := w2Op{GapMs: []int64{0, 0, 1, 10, 100}[rng.Intn(5)], Fields: map[string]string{}}
		pathFields := func() {
			// mostly one unique value at least, so that every read is attributable to one write;
			// now and then a value from a small pool shared by paths and defaults (the initial
			// default included): an explicit setting that equals what the path inherits at that
			// moment must still pin the value when the defaults change later
			switch rng.Intn(6) {
			case 0:
				op.Fields["maxReaders"] = []string{"0", "7", "8"}[rng.Intn(3)]
			case 1:
				// no maxReaders at all in this payload
			default:
				op.Fields["maxReaders"] = fmt.Sprint(100 + uniq)
			}
			switch rng.Intn(5) {
			case 0:
				op.Fields["overridePublisher"] = []string{"true", "false"}[rng.Intn(2)]
			case 1:
				op.Fields["recordDeleteAfter"] = fmt.Sprint(86400 + uniq)
			case 2:
				op.Fields["recordSegmentDuration"] = fmt.Sprint(600 + uniq)
			case 3:
				// below the segment duration in force unless that was lowered: may be invalid
				op.Fields["recordDeleteAfter"] = fmt.Sprint(1000 + uniq)
			}
		}
		switch rng.Intn(10) {
		case 0, 1, 2:
			op.Kind = "read"
			op.Fields = nil
		case 3:
			op.Kind = "global"
			switch rng.Intn(5) {
			case 0:
				op.Fields["readTimeout"] = fmt.Sprint(10 + uniq)
			case 1:
				op.Fields["writeQueueSize"] = []string{"256", "1024", "2048", "300", "0"}[rng.Intn(5)]
				op.Fields["readTimeout"] = fmt.Sprint(10 + uniq)
			case 2:
				op.Fields["udpMaxPayloadSize"] = []string{"1400", "1472", "1500"}[rng.Intn(3)]
				op.Fields["readTimeout"] = fmt.Sprint(10 + uniq)
			case 3:
				op.Fields["logLevel"] = []string{"info", "warn", "error"}[rng.Intn(3)]
				op.Fields["readTimeout"] = fmt.Sprint(10 + uniq)
			default:
				op.Fields["readTimeout"] = "0"
			}
		case 4:
			op.Kind = "defaults"
			pathFields()
		case 5, 6:
			op.Kind = "add"
			op.Name = names[rng.Intn(len(names))]
			if rng.Intn(8) == 0 {
				op.Name = "bad name"
			}
			pathFields()
		case 7:
			op.Kind = "patch"
			op.Name = names[rng.Intn(len(names))]
			pathFields()
		case 8:
			op.Kind = "replace"
			op.Name = names[rng.Intn(len(names))]
			pathFields()
		default:
			op.Kind = "delete"
			op.Name = names[rng.Intn(len(names))]
			op.Fields = nil
		}
		b.Clients[c].Ops = append(b.Clients[c].Ops, op)
	}
	sched := simrt.DefaultSched(rng)
	sched.MaxSteps = 200000
	return b, sched
}

func w2Seconds(d conf.Duration) string { return fmt.Sprint(int64(time.Duration(d) / time.Second)) }

// w2View renders the tracked part of a real configuration like w2State.view.
func w2View(c *conf.Conf) (view string, full *w2State) {
	lv, _ := json.Marshal(c.LogLevel)
	s := &w2State{G: map[string]string{}, D: map[string]string{}, P: map[string]map[string]string{}}
	s.G["logLevel"] = string(bytes.Trim(lv, `"`))
	s.G["readTimeout"] = w2Seconds(c.ReadTimeout)
	s.G["writeQueueSize"] = fmt.Sprint(c.WriteQueueSize)
	s.G["udpMaxPayloadSize"] = fmt.Sprint(c.UDPMaxPayloadSize)
	pf := func(p *conf.Path) map[string]string {
		return map[string]string{
			"maxReaders":            fmt.Sprint(p.MaxReaders),
			"overridePublisher":     fmt.Sprint(p.OverridePublisher),
			"recordDeleteAfter":     w2Seconds(p.RecordDeleteAfter),
			"recordSegmentDuration": w2Seconds(p.RecordSegmentDuration),
		}
	}
	s.D = pf(&c.PathDefaults)
	for name, p := range c.Paths {
		s.P[name] = pf(p) // effective values
	}
	// the view of effective values: every field explicit
	return s.view(), s
}

func (w *w2World) Run(t *testing.T, sc *simrt.Scenario, cfg simrt.Config) simrt.Outcome {
	var b w2Body
	if err := json.Unmarshal(sc.Body, &b); err != nil {
		return simrt.Outcome{Violations: []simrt.Violation{{Property: "!", Clause: "bad-scenario", Detail: err.Error()}}}
	}
	var hist []*w2HistOp
	var histMu sync.Mutex
	initState := ""
	var storeSeqs []int64
	{
		// start the os/signal routine outside the bubble: it never blocks durably
		c := make(chan os.Signal, 1)
		signal.Notify(c, os.Interrupt)
		signal.Stop(c)
	}
	res := simrt.Run(t, cfg, func() {
		dir := filepath.Join(os.TempDir(), "w2run")
		os.RemoveAll(dir)
		os.MkdirAll(dir, 0o755)
		defer os.RemoveAll(dir)
		confPath := filepath.Join(dir, "mediamtx.yml")
		os.WriteFile(confPath, []byte("rtsp: no\nrtmp: no\nhls: no\nwebrtc: no\nsrt: no\nmoq: no\napi: no\nmetrics: no\npprof: no\nplayback: no\nlogLevel: error\npaths:\n  p1:\n"), 0o644)
		fsnotify.SimReset()
		p, ok := New([]string{confPath})
		if !ok {
			simrt.Violate("!", "infra", "core.New failed")
			return
		}
		// the initial state of the model: what the server says right after start
		c0 := p.APIConfigSnapshot()
		_, st0 := w2View(c0)
		// explicit settings of p1 are empty in the file
		st0.P = map[string]map[string]string{"p1": {}}
		initState = st0.encode()

		// observe (in scheduler context) when a new configuration becomes the current one
		// (the hook runs on the scheduler's goroutine: it shares nothing with this one but atomics)
		var corePtr atomic.Pointer[Core]
		var last any
		corePtr.Store(p) // release: everything above is ordered before the hook's first Load
		simrt.OnStep(func() {
			cur := w2Current(corePtr.Load())
			if last == nil {
				last = cur
				return
			}
			if cur != last {
				last = cur
				storeSeqs = append(storeSeqs, simrt.Rec("conf.current", "", "", 0, 0, 0))
			}
		})

		var wg sync.WaitGroup
		for ci := range b.Clients {
			ci := ci
			wg.Add(1)
			go func() {
				defer wg.Done()
				for oi := range b.Clients[ci].Ops {
					op := &b.Clients[ci].Ops[oi]
					if op.GapMs > 0 {
						time.Sleep(time.Duration(op.GapMs) * time.Millisecond)
					}
					h := &w2HistOp{client: ci, op: op}
					h.call = simrt.Rec("op.call", op.Kind, op.Name, int64(ci), int64(oi), 0)
					var err error
					switch op.Kind {
					case "read":
						h.out.View, _ = w2View(p.APIConfigSnapshot())
						h.out.OK = true
					case "global":
						var v conf.OptionalGlobal
						if err = jsonwrapper.Decode(bytes.NewReader([]byte(op.payload())), &v); err == nil {
							err = p.APIConfigGlobalPatch(v)
						}
					case "defaults":
						var v conf.OptionalPath
						if err = jsonwrapper.Decode(bytes.NewReader([]byte(op.payload())), &v); err == nil {
							err = p.APIConfigPathDefaultsPatch(v)
						}
					case "add", "patch", "replace":
						var v conf.OptionalPath
						if err = jsonwrapper.Decode(bytes.NewReader([]byte(op.payload())), &v); err == nil {
							switch op.Kind {
							case "add":
								err = p.APIConfigPathsAdd(op.Name, v)
							case "patch":
								err = p.APIConfigPathsPatch(op.Name, v)
							default:
								err = p.APIConfigPathsReplace(op.Name, v)
							}
						}
					case "delete":
						err = p.APIConfigPathsDelete(op.Name)
					}
					if op.Kind != "read" {
						h.out.OK = err == nil
						if err != nil {
							h.errText = err.Error()
						}
					}
					okN := int64(0)
					if h.out.OK {
						okN = 1
					}
					h.ret = simrt.Rec("op.ret", op.Kind, op.Name, int64(ci), int64(oi), okN)
					histMu.Lock()
					hist = append(hist, h)
					histMu.Unlock()
				}
			}()
		}
		wg.Wait()
		// quiescence, then one more read by a fresh client: the final state must be the model's
		simrt.Calm()
		time.Sleep(2 * time.Second)
		simrt.Settle()
		h := &w2HistOp{client: len(b.Clients), op: &w2Op{Kind: "read"}}
		h.call = simrt.Rec("op.call", "read", "", int64(len(b.Clients)), 0, 0)
		h.out.View, _ = w2View(p.APIConfigSnapshot())
		h.out.OK = true
		h.ret = simrt.Rec("op.ret", "read", "", int64(len(b.Clients)), 0, 1)
		hist = append(hist, h)
		p.Close()
	})
	out := simrt.Outcome{Res: res}
	out.Violations = append(out.Violations, res.Violations...)
	edits, okEdits := 0, 0
	if len(res.Violations) == 0 && initState != "" {
		// the k-th successful edit (in acknowledgement order) is the k-th configuration to become current
		var succ []*w2HistOp
		for _, h := range hist {
			if h.op.Kind != "read" {
				edits++
				if h.out.OK {
					okEdits++
					succ = append(succ, h)
				}
			}
		}
		for i := 1; i < len(succ); i++ {
			for j := i; j > 0 && succ[j].ret < succ[j-1].ret; j-- {
				succ[j], succ[j-1] = succ[j-1], succ[j]
			}
		}
		for i, h := range succ {
			if i < len(storeSeqs) {
				h.storeAfter = storeSeqs[i]
			}
		}
		out.Violations = append(out.Violations, w2Check(initState, hist)...)
	}
	out.Nontrivial = okEdits > 0
	out.Abstract = []string{fmt.Sprintf("c%d e%d ok%d", len(b.Clients), edits, okEdits), res.Hash}
	out.Extra = map[string]any{"operations": len(hist), "edits": edits, "accepted_edits": okEdits}
	return out
}
