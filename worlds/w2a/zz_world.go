package confwatcher

// W2a: the real ConfWatcher over a simulated fsnotify and the simulated clock.
// The harness performs real file operations on a real directory and feeds the
// notifications an inotify watcher of the parent directory would produce; a
// consumer shaped like Core.run reloads the file on every signal. Oracle: once
// the file has stopped changing, what the consumer loaded last is the file's
// final content.

import (
	"encoding/json"
	"fmt"
	"math/rand"
	"os"
	"path/filepath"
	"testing"
	"time"

	"github.com/bluenviron/mediamtx/internal/zzsim/fsnotify"
	"github.com/bluenviron/mediamtx/internal/zzsim/simrt"
)

func simWorldMain(t *testing.T) { simrt.WorkerMain(t, &w2aWorld{}) }

type w2aOp struct {
	Op       string `json:"op"` // write, write2 (two chunks), rename, recreate, symswap, chmod, other
	BeforeMs int64  `json:"before_ms"`
	GapMs    int64  `json:"gap_ms,omitempty"` // between the two halves of a two-step operation
}

type w2aBody struct {
	Symlinked  bool    `json:"symlinked"` // kubernetes style: conf -> ..data/conf, ..data -> ..v<n>
	Ops        []w2aOp `json:"ops"`
	ConsumerMs int64   `json:"consumer_ms"` // how long the consumer takes to reload
	EventLagMs int64   `json:"event_lag_ms"`
}

type w2aWorld struct{}

var w2aGaps = []int64{0, 1, 9, 10, 11, 100, 500, 999, 1000, 1001, 1010, 1500, 5000}

func (w *w2aWorld) Gen(rng *rand.Rand, property, tier string) (any, simrt.Sched) {
	b := &w2aBody{
		Symlinked:  rng.Intn(4) == 0,
		ConsumerMs: []int64{0, 0, 5, 200, 1500}[rng.Intn(5)],
		EventLagMs: []int64{0, 0, 1, 20}[rng.Intn(4)],
	}
	n := 1 + rng.Intn(8)
	for i := 0; i < n; i++ {
		op := w2aOp{BeforeMs: w2aGaps[rng.Intn(len(w2aGaps))]}
		if b.Symlinked {
			op.Op = []string{"symswap", "symswap", "other", "chmod"}[rng.Intn(4)]
		} else {
			op.Op = []string{"write", "write", "write2", "rename", "recreate", "chmod", "other"}[rng.Intn(7)]
			op.GapMs = []int64{0, 1, 9, 11, 50, 1200}[rng.Intn(6)]
		}
		b.Ops = append(b.Ops, op)
	}
	sched := simrt.DefaultSched(rng)
	sched.MaxSteps = 20000
	// the oracle is a bounded-liveness statement ("10 s after the last change"):
	// the scheduler must not stall runnable goroutines while the clock runs
	sched.StallProb = 0
	return b, sched
}

type w2aHarness struct {
	b       *w2aBody
	dir     string
	conf    string
	queue   chan fsnotify.Event
	version int
	final   string
}

func (h *w2aHarness) content() string {
	h.version++
	return fmt.Sprintf("# version %d\nlogLevel: info\nmarker: v%d\n", h.version, h.version)
}

func (h *w2aHarness) emit(name string, op fsnotify.Op) {
	simrt.Rec("fs.event", filepath.Base(name), op.String(), 0, 0, 0)
	h.queue <- fsnotify.Event{Name: name, Op: op}
}

func (h *w2aHarness) sleep(ms int64) {
	if ms > 0 {
		time.Sleep(time.Duration(ms) * time.Millisecond)
	}
}

// doOp performs one file operation and queues the notifications of an inotify
// watcher on the parent directory.
func (h *w2aHarness) doOp(op w2aOp) {
	switch op.Op {
	case "write":
		c := h.content()
		os.WriteFile(h.conf, []byte(c), 0o644)
		h.final = c
		simrt.Rec("fs.change", "write", c, 0, 0, 0)
		h.emit(h.conf, fsnotify.Write) // truncation
		h.emit(h.conf, fsnotify.Write)
	case "write2":
		// a writer that produces the file in two chunks
		c := h.content()
		half := len(c) / 2
		os.WriteFile(h.conf, []byte(c[:half]), 0o644)
		simrt.Rec("fs.change", "write-partial", c[:half], 0, 0, 0)
		h.emit(h.conf, fsnotify.Write)
		h.sleep(op.GapMs)
		f, err := os.OpenFile(h.conf, os.O_WRONLY|os.O_APPEND, 0o644)
		if err == nil {
			f.WriteString(c[half:])
			f.Close()
		}
		h.final = c
		simrt.Rec("fs.change", "write-rest", c, 0, 0, 0)
		h.emit(h.conf, fsnotify.Write)
	case "rename":
		// editor style: write a temporary file, rename it over the configuration
		c := h.content()
		tmp := h.conf + ".tmp"
		os.WriteFile(tmp, []byte(c), 0o644)
		h.emit(tmp, fsnotify.Create)
		h.emit(tmp, fsnotify.Write)
		h.sleep(op.GapMs)
		os.Rename(tmp, h.conf)
		h.final = c
		simrt.Rec("fs.change", "rename", c, 0, 0, 0)
		h.emit(tmp, fsnotify.Rename)
		h.emit(h.conf, fsnotify.Create)
	case "recreate":
		os.Remove(h.conf)
		simrt.Rec("fs.change", "remove", "", 0, 0, 0)
		h.emit(h.conf, fsnotify.Remove)
		h.sleep(op.GapMs)
		c := h.content()
		os.WriteFile(h.conf, []byte(c), 0o644)
		h.final = c
		simrt.Rec("fs.change", "create", c, 0, 0, 0)
		h.emit(h.conf, fsnotify.Create)
		h.emit(h.conf, fsnotify.Write)
	case "symswap":
		// kubernetes ConfigMap update: new ..v<n> directory, ..data swapped atomically
		c := h.content()
		vdir := filepath.Join(h.dir, fmt.Sprintf("..v%d", h.version))
		os.Mkdir(vdir, 0o755)
		os.WriteFile(filepath.Join(vdir, "mediamtx.yml"), []byte(c), 0o644)
		h.emit(vdir, fsnotify.Create)
		tmp := filepath.Join(h.dir, "..data_tmp")
		os.Symlink(filepath.Base(vdir), tmp)
		h.emit(tmp, fsnotify.Create)
		os.Rename(tmp, filepath.Join(h.dir, "..data"))
		h.final = c
		simrt.Rec("fs.change", "symswap", c, 0, 0, 0)
		h.emit(tmp, fsnotify.Rename)
		h.emit(filepath.Join(h.dir, "..data"), fsnotify.Create)
	case "chmod":
		os.Chmod(h.conf, 0o600)
		h.emit(h.conf, fsnotify.Chmod)
	case "other":
		o := filepath.Join(h.dir, "other.txt")
		os.WriteFile(o, []byte("x"), 0o644)
		h.emit(o, fsnotify.Create)
		h.emit(o, fsnotify.Write)
	}
}

func (w *w2aWorld) Run(t *testing.T, sc *simrt.Scenario, cfg simrt.Config) simrt.Outcome {
	var b w2aBody
	if err := json.Unmarshal(sc.Body, &b); err != nil {
		return simrt.Outcome{Violations: []simrt.Violation{{Property: "!", Clause: "bad-scenario", Detail: err.Error()}}}
	}
	h := &w2aHarness{b: &b}
	signals := 0
	res := simrt.Run(t, cfg, func() {
		dir, err := os.MkdirTemp("", "w2a-")
		if err != nil {
			simrt.Violate("!", "infra", "%v", err)
			return
		}
		defer os.RemoveAll(dir)
		h.dir = dir
		h.conf = filepath.Join(dir, "mediamtx.yml")
		first := h.content()
		if b.Symlinked {
			vdir := filepath.Join(dir, "..v1")
			os.Mkdir(vdir, 0o755)
			os.WriteFile(filepath.Join(vdir, "mediamtx.yml"), []byte(first), 0o644)
			os.Symlink("..v1", filepath.Join(dir, "..data"))
			os.Symlink(filepath.Join("..data", "mediamtx.yml"), h.conf)
		} else {
			os.WriteFile(h.conf, []byte(first), 0o644)
		}
		h.final = first
		loaded := first // what the server runs with

		fsnotify.SimReset()
		cw := &ConfWatcher{FilePath: h.conf}
		if err = cw.Initialize(); err != nil {
			simrt.Violate("!", "infra", "Initialize: %v", err)
			return
		}
		ws := fsnotify.SimWatchers()
		if len(ws) != 1 {
			simrt.Violate("!", "infra", "%d watchers", len(ws))
			return
		}
		fw := ws[0]
		h.queue = make(chan fsnotify.Event, 4096)
		stop := make(chan struct{})
		pumpDone := make(chan struct{})
		// the kernel queue: notifications are delivered in order, possibly late
		go func() {
			defer close(pumpDone)
			for {
				select {
				case ev := <-h.queue:
					if b.EventLagMs > 0 {
						time.Sleep(time.Duration(b.EventLagMs) * time.Millisecond)
					}
					select {
					case fw.Events <- ev:
					case <-stop:
						return
					}
				case <-stop:
					return
				}
			}
		}()
		// the consumer, shaped like Core.run: reload the file on every signal
		consDone := make(chan struct{})
		go func() {
			defer close(consDone)
			for range cw.Watch() {
				signals++
				data, err2 := os.ReadFile(h.conf)
				simrt.Rec("signal", "", string(data), 0, 0, 0)
				if err2 == nil && len(data) > 0 && data[len(data)-1] == '\n' && w2aComplete(string(data)) {
					loaded = string(data) // a valid configuration: the server switches to it
				}
				// reloading takes a while (servers are closed and re-created)
				if b.ConsumerMs > 0 {
					time.Sleep(time.Duration(b.ConsumerMs) * time.Millisecond)
				}
			}
		}()
		for _, op := range b.Ops {
			h.sleep(op.BeforeMs)
			h.doOp(op)
		}
		simrt.Rec("ops.done", "", h.final, 0, 0, 0)
		// the file has stopped changing: leave ample time (debounce 1 s + 10 ms, consumer, lag)
		time.Sleep(10 * time.Second)
		simrt.Rec("epilogue", "", loaded, 0, 0, 0)
		if loaded != h.final {
			simrt.Violate("C38", "final-content-not-loaded",
				"10 s after the last change the server still runs with %q, the file contains %q (%d signals were delivered)",
				w2aMarker(loaded), w2aMarker(h.final), signals)
		}
		cw.Close()
		close(stop)
		<-pumpDone
		<-consDone
	})
	out := simrt.Outcome{Res: res}
	out.Violations = append(out.Violations, res.Violations...)
	changes := 0
	for _, op := range b.Ops {
		if op.Op != "chmod" && op.Op != "other" {
			changes++
		}
	}
	out.Nontrivial = changes >= 2
	out.Abstract = []string{fmt.Sprintf("sym%v ops%d sig%d", b.Symlinked, len(b.Ops), signals), res.Hash}
	return out
}

// w2aComplete reports whether data is a complete configuration written by the harness.
func w2aComplete(data string) bool {
	var v1, v2 int
	n, _ := fmt.Sscanf(data, "# version %d\nlogLevel: info\nmarker: v%d\n", &v1, &v2)
	return n == 2 && v1 == v2
}

func w2aMarker(data string) string {
	var v1 int
	if n, _ := fmt.Sscanf(data, "# version %d\n", &v1); n == 1 {
		return fmt.Sprintf("version %d", v1)
	}
	return data
}
