package moq

// S3: the real inbound track of the MoQ server (inboundTrack.push: reorderer, then the
// hand-off to the path) fed the way the server feeds it: one goroutine per received group
// (each group travels on a QUIC stream of its own, each stream is read by a goroutine of its
// own), under the simrt scheduler. The sink stands for the path; it takes some time per
// subgroup, like the real one.

import (
	"encoding/json"
	"fmt"
	"math/rand"
	"sort"
	"sync"
	"testing"
	"time"

	"github.com/bluenviron/mediamtx/internal/logger"
	"github.com/bluenviron/mediamtx/internal/protocols/moq/subgroup"
	"github.com/bluenviron/mediamtx/internal/zzsim/simrt"
)

func simWorldMain(t *testing.T) { simrt.WorkerMain(t, &s3World{}) }

type s3Arrival struct {
	ID   uint64 `json:"id"`
	Size int    `json:"size"`
	AtMs int64  `json:"at_ms"`
}

type s3Body struct {
	Arrivals  []s3Arrival `json:"arrivals"`
	SinkMs    []int64     `json:"sink_ms"` // time the sink takes for the k-th subgroup it gets (cyclic)
	Reordered int         `json:"reordered"`
}

type s3World struct{}

func (w *s3World) Gen(rng *rand.Rand, property, tier string) (any, simrt.Sched) {
	b := &s3Body{}
	n := 5 + rng.Intn(25)
	window := []int{0, 1, 2, 4}[rng.Intn(4)]
	gap := []int64{0, 1, 5}[rng.Intn(3)]
	for i := 0; i < n; i++ {
		at := int64(i)*gap + int64(rng.Intn(window+1))*gap
		b.Arrivals = append(b.Arrivals, s3Arrival{ID: uint64(i), Size: []int{0, 10, 100}[rng.Intn(3)], AtMs: at})
	}
	sort.SliceStable(b.Arrivals, func(i, j int) bool { return b.Arrivals[i].AtMs < b.Arrivals[j].AtMs })
	for i := 1; i < len(b.Arrivals); i++ {
		if b.Arrivals[i].ID < b.Arrivals[i-1].ID {
			b.Reordered++
		}
	}
	for k, m := 0, 1+rng.Intn(4); k < m; k++ {
		b.SinkMs = append(b.SinkMs, []int64{0, 0, 1, 3}[rng.Intn(4)])
	}
	sched := simrt.DefaultSched(rng)
	sched.MaxSteps = 100000
	return b, sched
}

type s3Log struct{}

func (s3Log) Log(level logger.Level, format string, args ...any) {}

func (w *s3World) Run(t *testing.T, sc *simrt.Scenario, cfg simrt.Config) simrt.Outcome {
	var b s3Body
	if err := json.Unmarshal(sc.Body, &b); err != nil {
		return simrt.Outcome{Violations: []simrt.Violation{{Property: "!", Clause: "bad-scenario", Detail: err.Error()}}}
	}
	if len(b.SinkMs) == 0 {
		b.SinkMs = []int64{0}
	}
	res := simrt.Run(t, cfg, func() {
		var mu sync.Mutex
		got := 0
		tr :=&inboundTrack{parent: s3Log{}}
		tr.onSubGroup = func(sg *subgroup.SubGroup) error {
			// the order of hand-off is the order in which the consumer is entered
			mu.Lock()
			k := got
			got++
			simrt.Rec("sink", "", "", int64(sg.Header.GroupID), int64(k), 0)
			mu.Unlock()
			if d := b.SinkMs[k%len(b.SinkMs)]; d > 0 {
				time.Sleep(time.Duration(d) * time.Millisecond)
			} else {
				simrt.Yield("sink")
			}
			return nil
		}
		tr.initialize()
		var wg sync.WaitGroup
		for i := range b.Arrivals {
			a := b.Arrivals[i]
			wg.Add(1)
			go func() {
				defer wg.Done()
				time.Sleep(time.Duration(a.AtMs) * time.Millisecond)
				sg := &subgroup.SubGroup{Header: subgroup.Header{GroupID: a.ID}, Objects: []subgroup.Object{{Payload: make([]byte, a.Size)}}}
				simrt.Rec("push.call", "", "", int64(a.ID), 0, 0)
				err := tr.push(sg)
				if err != nil {
					simrt.Rec("push.err", err.Error(), "", int64(a.ID), 0, 0)
				}
				simrt.Rec("push.ret", "", "", int64(a.ID), 0, 0)
			}()
		}
		wg.Wait()
	})
	out := simrt.Outcome{Res: res}
	out.Violations = append(out.Violations, res.Violations...)
	// the subgroups handed on have strictly increasing group ids, each was received, none twice
	received := map[uint64]bool{}
	for _, a := range b.Arrivals {
		received[a.ID] = true
	}
	seen := map[uint64]bool{}
	var last uint64
	first := true
	var order []uint64
	for _, e := range res.History {
		if e.Kind != "sink" {
			continue
		}
		id := uint64(e.N)
		order = append(order, id)
		add := func(clause, format string, args ...any) {
			if len(out.Violations) < 10 {
				out.Violations = append(out.Violations, simrt.Violation{Property: "C33", Clause: clause, Detail: fmt.Sprintf(format, args...)})
			}
		}
		if !received[id] {
			add("not-received", "group %d was handed on to the path and was never received", id)
		}
		if seen[id] {
			add("group-twice", "group %d was handed on to the path twice", id)
		}
		seen[id] = true
		if !first && id <= last {
			add("handoff-not-increasing", "the path was handed group %d after group %d (hand-off order so far %v)", id, last, order)
		}
		if first || id > last {
			last = id
		}
		first = false
	}
	out.Nontrivial = b.Reordered > 0
	out.Abstract = []string{fmt.Sprintf("n%d r%d", len(b.Arrivals)/8, b.Reordered/3), res.Hash}
	return out
}
