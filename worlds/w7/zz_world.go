package core

// W7 "rtmpworld": the real RTMP front-end (internal/servers/rtmp: Server, listener, conn with
// its publish and read flows, internal/protocols/rtmp) with the real gortmplib on both ends of
// a simulated TCP network, in front of the real path manager, paths, streams, authentication
// manager and hooks. Clients are real gortmplib clients with their own addresses and
// credentials. This is the front-end half that worlds W1 (client actors in place of the
// servers) does not execute: how a protocol session turns what the client sent into access
// requests, and how it pairs its hooks.
//
// Oracles:
//   C03  every attachment of a connection to a path (AddReader / AddPublisher that succeeded,
//        seen by a recording proxy between the server and the path manager) rests on an
//        admission by the authentication manager for that connection, that path name and the
//        matching action; and what was admitted is what the client at that address sent
//        (user, password).
//   C20  per connection: runOnConnect starts once, runOnDisconnect once, after it; per reading
//        connection: runOnRead once, then runOnUnread once; nothing left open at the end.
//   *    no panic, shutdown completes.

import (
	"context"
	"encoding/json"
	"fmt"
	"math/rand"
	"net"
	"net/url"
	"os"
	"path/filepath"
	"sort"
	"strings"
	"sync"
	"testing"
	"time"

	"github.com/bluenviron/gortmplib"
	"github.com/bluenviron/gortmplib/pkg/codecs"
	"github.com/google/uuid"

	"github.com/bluenviron/mediamtx/internal/auth"
	"github.com/bluenviron/mediamtx/internal/conf"
	"github.com/bluenviron/mediamtx/internal/defs"
	"github.com/bluenviron/mediamtx/internal/externalcmd"
	"github.com/bluenviron/mediamtx/internal/logger"
	"github.com/bluenviron/mediamtx/internal/servers/rtmp"
	"github.com/bluenviron/mediamtx/internal/zzsim/simnet"
	"github.com/bluenviron/mediamtx/internal/zzsim/simrt"
)

func simWorldMain(t *testing.T) { simrt.WorkerMain(t, &w7World{}) }

// ---------------------------------------------------------------------------
// scenario

type w7Op struct {
	Op string `json:"op"` // session (publisher: n frames ms apart; reader: ms long), sleep
	N  int64  `json:"n,omitempty"`
	Ms int64  `json:"ms,omitempty"`
}

type w7Actor struct {
	Kind    string `json:"kind"` // pub rd kick nop
	Path    string `json:"path,omitempty"`
	User    string `json:"user,omitempty"`
	Pass    string `json:"pass,omitempty"`
	StartMs int64  `json:"start_ms,omitempty"`
	Ops     []w7Op `json:"ops"`
}

type w7Body struct {
	Hooks  bool      `json:"hooks"`
	Actors []w7Actor `json:"actors"`
	TailMs int64     `json:"tail_ms"`
}

type w7User struct {
	user, pass string
	publish    []string // paths ("" = any)
	read       []string
}

var w7Users = []w7User{
	{user: "pub", pass: "pubpw", publish: []string{""}},
	{user: "cam1pub", pass: "c1", publish: []string{"cam1"}},
	{user: "viewer", pass: "vpw", read: []string{""}},
	{user: "cam1view", pass: "v1", read: []string{"cam1"}},
	{user: "both", pass: "bpw", publish: []string{""}, read: []string{""}},
}

type w7World struct{}

func (w *w7World) Gen(rng *rand.Rand, property, tier string) (any, simrt.Sched) {
	pick := func(l ...string) string { return l[rng.Intn(len(l))] }
	b := &w7Body{Hooks: rng.Intn(3) != 0 || property == "C20", TailMs: 3000}
	creds := [][2]string{{"pub", "pubpw"}, {"pub", "pubpw"}, {"cam1pub", "c1"}, {"viewer", "vpw"}, {"viewer", "vpw"}, {"cam1view", "v1"},
		{"both", "bpw"}, {"both", "bpw"}, {"pub", "wrong"}, {"", ""}, {"viewer", ""}}
	paths := []string{"cam1", "cam1", "cam2", "r7"}
	np := 1 + rng.Intn(3)
	for i := 0; i < np; i++ {
		c := creds[rng.Intn(len(creds))]
		if i == 0 {
			c = [2]string{"pub", "pubpw"}
		}
		a := w7Actor{Kind: "pub", Path: pick(paths...), User: c[0], Pass: c[1], StartMs: int64(rng.Intn(4)) * 100}
		for s, n := 0, 1+rng.Intn(2); s < n; s++ {
			op := w7Op{Op: "session", N: int64(3 + rng.Intn(25)), Ms: []int64{20, 100, 300}[rng.Intn(3)]}
			if i == 0 && s == 0 {
				// the stream most readers go for: up from the start, for several seconds
				a.StartMs = 0
				op.N, op.Ms = int64(30+rng.Intn(50)), 100
			}
			a.Ops = append(a.Ops, op)
			a.Ops = append(a.Ops, w7Op{Op: "sleep", Ms: []int64{0, 50, 500, 2000}[rng.Intn(4)]})
		}
		b.Actors = append(b.Actors, a)
	}
	nr := 1 + rng.Intn(4)
	for i := 0; i < nr; i++ {
		c := creds[rng.Intn(len(creds))]
		if rng.Intn(2) == 0 {
			c = [2]string{"viewer", "vpw"}
		}
		a := w7Actor{Kind: "rd", Path: pick(paths...), User: c[0], Pass: c[1], StartMs: int64(200 + rng.Intn(3000))}
		if rng.Intn(2) == 0 {
			// where the first publisher is
			a.Path = b.Actors[0].Path
		}
		for s, n := 0, 1+rng.Intn(2); s < n; s++ {
			a.Ops = append(a.Ops, w7Op{Op: "session", Ms: []int64{100, 500, 2000, 5000}[rng.Intn(4)]})
			a.Ops = append(a.Ops, w7Op{Op: "sleep", Ms: []int64{0, 50, 500}[rng.Intn(3)]})
		}
		b.Actors = append(b.Actors, a)
	}
	if rng.Intn(3) == 0 {
		// the API kicks whatever connections exist at that moment
		b.Actors = append(b.Actors, w7Actor{Kind: "kick", StartMs: int64(500 + rng.Intn(4000)), Ops: []w7Op{{Op: "kick"}}})
	}
	if property == "C40" || rng.Intn(4) == 0 {
		// API pollers: list (and get) the connections while they come and go
		for i, n := 0, 1+rng.Intn(2); i < n; i++ {
			b.Actors = append(b.Actors, w7Actor{Kind: "api", StartMs: int64(rng.Intn(500)),
				Ops: []w7Op{{Op: "list", N: int64(5 + rng.Intn(30)), Ms: []int64{50, 200, 500}[rng.Intn(3)]}}})
		}
	}
	sched := simrt.DefaultSched(rng)
	sched.MaxSteps = 400000
	sched.Focus = []string{"servers/rtmp/"}
	return b, sched
}

// ---------------------------------------------------------------------------
// harness

type w7AuthRec struct {
	seq     int64
	id      uuid.UUID
	hasID   bool
	path    string
	publish bool
	user    string
	pass    string
	ip      string
	ok      bool
}

type w7Client struct {
	who        string
	user, pass string
	path       string
	publish    bool
}

type w7Harness struct {
	body *w7Body
	pm   *pathManager
	srv  *rtmp.Server

	mu       sync.Mutex
	auths    []w7AuthRec
	clients  map[string]*w7Client // by simulated address
	viol     []simrt.Violation
	attached int
	refused  int
	procSeq  int64
	// hook processes: key (kind|id) -> starts
	hookLog []w7HookEv
}

type w7HookEv struct {
	seq  int64
	kind string // connect disconnect read unread
	id   string
}

// Log receives the server's log lines. The lines with which the hook closures announce
// themselves are the observation of C20 (as in W1): "started" / "launched" are written when
// the closure fires, in program order, whereas the simulated processes start on goroutines
// of their own, in any order.
func (h *w7Harness) Log(level logger.Level, format string, args ...any) {
	msg := fmt.Sprintf(format, args...)
	i := strings.Index(msg, "runOn")
	if i < 0 {
		return
	}
	kind := ""
	switch {
	case strings.Contains(msg, "runOnConnect command started"):
		kind = "connect"
	case strings.Contains(msg, "runOnDisconnect command launched"):
		kind = "disconnect"
	case strings.Contains(msg, "runOnRead command started"):
		kind = "read"
	case strings.Contains(msg, "runOnUnread command launched"):
		kind = "unread"
	default:
		return
	}
	id := ""
	if a := strings.Index(msg, "[conn "); a >= 0 {
		if b := strings.Index(msg[a:], "]"); b > 0 {
			id = msg[a+6 : a+b]
		}
	}
	seq := simrt.Rec("hook", kind, id, 0, 0, 0)
	h.mu.Lock()
	h.hookLog = append(h.hookLog, w7HookEv{seq: seq, kind: kind, id: id})
	h.mu.Unlock()
}

func (h *w7Harness) violate(prop, clause, format string, args ...any) {
	h.mu.Lock()
	defer h.mu.Unlock()
	for _, v := range h.viol {
		if v.Property == prop && v.Clause == clause {
			return
		}
	}
	h.viol = append(h.viol, simrt.Violation{Property: prop, Clause: clause, Detail: fmt.Sprintf(format, args...)})
}

// authentication proxy: records every decision
type w7AuthProxy struct {
	h *w7Harness
	m *auth.Manager
}

func (p *w7AuthProxy) Authenticate(req *auth.Request) (string, *auth.Error) {
	user, err := p.m.Authenticate(req)
	r := w7AuthRec{path: req.Path, ip: req.IP.String(), publish: req.Action == conf.AuthActionPublish, ok: err == nil}
	if req.Credentials != nil {
		r.user, r.pass = req.Credentials.User, req.Credentials.Pass
	}
	if req.ID != nil {
		r.id, r.hasID = *req.ID, true
	}
	okN := int64(0)
	if r.ok {
		okN = 1
	}
	r.seq = simrt.Rec("auth", r.user+"|"+r.pass+"|"+r.ip, req.Path+"|"+string(req.Action), okN, 0, 0)
	p.h.mu.Lock()
	p.h.auths = append(p.h.auths, r)
	p.h.mu.Unlock()
	return user, err
}

// path manager proxy: sits where the server's PathManager field points and sees every
// access request the front-end makes and whether it led to an attachment
type w7PMProxy struct {
	h  *w7Harness
	pm *pathManager

	mu     sync.Mutex
	idOf   map[defs.Publisher]uuid.UUID // publisher author -> connection id learnt from its FindPathConf
	nameOf map[defs.Publisher]string
}

func (p *w7PMProxy) justified(id uuid.UUID, path string, publish bool, after int64) *w7AuthRec {
	p.h.mu.Lock()
	defer p.h.mu.Unlock()
	for i := len(p.h.auths) - 1; i >= 0; i-- {
		a := &p.h.auths[i]
		if a.seq > after && a.ok && a.hasID && a.id == id && a.path == path && a.publish == publish {
			return a
		}
	}
	return nil
}

func (p *w7PMProxy) checkPresented(a *w7AuthRec, what string) {
	p.h.mu.Lock()
	c := p.h.clients[a.ip]
	p.h.mu.Unlock()
	if c == nil {
		p.h.violate("C03", "admitted-foreign-address", "%s: the admission was given for address %s, from which no client connected", what, a.ip)
		return
	}
	if c.user != a.user || c.pass != a.pass {
		p.h.violate("C03", "admitted-other-credentials", "%s: the admission was given for user %q password %q, the client at %s (%s) sent user %q password %q",
			what, a.user, a.pass, a.ip, c.who, c.user, c.pass)
	}
}

func (p *w7PMProxy) FindPathConf(req defs.PathFindPathConfReq) (*defs.PathFindPathConfRes, error) {
	seq0 := simrt.Rec("fe.find.call", req.AccessRequest.Name, "", w7B(req.AccessRequest.Publish), 0, 0)
	res, err := p.pm.FindPathConf(req)
	simrt.Rec("fe.find.ret", req.AccessRequest.Name, "", w7B(err == nil), 0, 0)
	if err == nil && req.AccessRequest.ID != nil {
		if pub, ok := req.Author.(defs.Publisher); ok {
			p.mu.Lock()
			if p.idOf == nil {
				p.idOf = map[defs.Publisher]uuid.UUID{}
				p.nameOf = map[defs.Publisher]string{}
			}
			p.idOf[pub] = *req.AccessRequest.ID
			p.nameOf[pub] = req.AccessRequest.Name
			p.mu.Unlock()
		}
	}
	_ = seq0
	return res, err
}

func (p *w7PMProxy) AddReader(req defs.PathAddReaderReq) (*defs.PathAddReaderRes, error) {
	seq0 := simrt.Rec("fe.addreader.call", req.AccessRequest.Name, "", 0, 0, 0)
	res, err := p.pm.AddReader(req)
	simrt.Rec("fe.addreader.ret", req.AccessRequest.Name, "", w7B(err == nil), 0, 0)
	if err != nil {
		p.h.mu.Lock()
		p.h.refused++
		p.h.mu.Unlock()
		return res, err
	}
	p.h.mu.Lock()
	p.h.attached++
	p.h.mu.Unlock()
	what := fmt.Sprintf("a connection became a reader of %q", req.AccessRequest.Name)
	if req.AccessRequest.SkipAuth || req.AccessRequest.ID == nil {
		p.h.violate("C03", "attached-without-admission", "%s with a request that skips authentication or names no connection", what)
		return res, err
	}
	a := p.justified(*req.AccessRequest.ID, req.AccessRequest.Name, false, seq0)
	if a == nil {
		p.h.violate("C03", "attached-without-admission", "%s, but the authentication manager did not admit that connection for reading that path during the request", what)
		return res, err
	}
	p.checkPresented(a, what)
	return res, err
}

func (p *w7PMProxy) AddPublisher(req defs.PathAddPublisherReq) (*defs.PathAddPublisherRes, error) {
	simrt.Rec("fe.addpub.call", req.AccessRequest.Name, "", 0, 0, 0)
	res, err := p.pm.AddPublisher(req)
	simrt.Rec("fe.addpub.ret", req.AccessRequest.Name, "", w7B(err == nil), 0, 0)
	if err != nil {
		p.h.mu.Lock()
		p.h.refused++
		p.h.mu.Unlock()
		return res, err
	}
	p.h.mu.Lock()
	p.h.attached++
	p.h.mu.Unlock()
	what := fmt.Sprintf("a connection became the publisher of %q", req.AccessRequest.Name)
	var a *w7AuthRec
	if !req.AccessRequest.SkipAuth && req.AccessRequest.ID != nil {
		a = p.justified(*req.AccessRequest.ID, req.AccessRequest.Name, true, 0)
	} else {
		p.mu.Lock()
		id, ok := p.idOf[req.Author]
		p.mu.Unlock()
		if ok {
			a = p.justified(id, req.AccessRequest.Name, true, 0)
		}
	}
	if a == nil {
		p.h.violate("C03", "attached-without-admission", "%s, but the authentication manager never admitted that connection for publishing to that path", what)
		return res, err
	}
	p.checkPresented(a, what)
	return res, err
}

func w7B(b bool) int64 {
	if b {
		return 1
	}
	return 0
}

// simulated hook processes
func (h *w7Harness) procRun(cmdstr string, env externalcmd.Environment, terminate chan struct{}) (int, bool) {
	kind := strings.TrimPrefix(cmdstr, "simhook ")
	id := env["MTX_CONN_ID"]
	if kind == "read" || kind == "unread" {
		id = env["MTX_READER_ID"]
	}
	simrt.Rec("proc.start", kind, id, 0, 0, 0)
	h.mu.Lock()
	h.procSeq++
	h.mu.Unlock()
	switch kind {
	case "disconnect", "unread":
		select {
		case <-time.After(20 * time.Millisecond):
		case <-terminate:
			return 0, true
		}
		return 0, false
	}
	<-terminate
	return 0, true
}

func (h *w7Harness) yaml() string {
	var sb strings.Builder
	sb.WriteString("rtsp: no\nrtmp: no\nhls: no\nwebrtc: no\nsrt: no\nmoq: no\napi: no\nmetrics: no\npprof: no\nplayback: no\nlogLevel: error\n")
	sb.WriteString("authInternalUsers:\n")
	for _, u := range w7Users {
		fmt.Fprintf(&sb, "- user: %s\n  pass: %s\n  permissions:\n", u.user, u.pass)
		for _, p := range u.publish {
			fmt.Fprintf(&sb, "  - action: publish\n    path: %q\n", p)
		}
		for _, p := range u.read {
			fmt.Fprintf(&sb, "  - action: read\n    path: %q\n", p)
		}
	}
	hk := ""
	if h.body.Hooks {
		hk = "    runOnRead: simhook read\n    runOnUnread: simhook unread\n"
	}
	sb.WriteString("paths:\n  cam1:\n" + hk + "  cam2:\n" + hk + "  \"~^r[0-9]+$\":\n" + hk)
	return sb.String()
}

var w7SPS = []byte{
	0x67, 0x42, 0xc0, 0x28, 0xd9, 0x00, 0x78, 0x02,
	0x27, 0xe5, 0x84, 0x00, 0x00, 0x03, 0x00, 0x04,
	0x00, 0x00, 0x03, 0x00, 0xf0, 0x3c, 0x60, 0xc9, 0x20,
}

var w7PPS = []byte{0x08, 0x06, 0x07, 0x08}

func (h *w7Harness) dial(idx, si int, a *w7Actor, publish bool) (*gortmplib.Client, string, error) {
	ip := fmt.Sprintf("10.%d.%d.%d", 1+idx, 1+si, 7)
	who := fmt.Sprintf("%s%d.%d", a.Kind, idx, si)
	h.mu.Lock()
	h.clients[ip] = &w7Client{who: who, user: a.User, pass: a.Pass, path: a.Path, publish: publish}
	h.mu.Unlock()
	q := url.Values{}
	if a.User != "" || a.Pass != "" {
		q.Set("user", a.User)
		q.Set("pass", a.Pass)
	}
	raw := "rtmp://server.sim:1935/" + a.Path
	if len(q) > 0 {
		raw += "?" + q.Encode()
	}
	u, _ := url.Parse(raw)
	c := &gortmplib.Client{URL: u, Publish: publish, DialContext: simnet.Dialer(ip)}
	simrt.Rec("cl.dial", who, a.Path, w7B(publish), 0, 0)
	ctx, cancel := context.WithTimeout(context.Background(), 15*time.Second)
	err := c.Initialize(ctx)
	cancel()
	simrt.Yield("core/zz_world.go:dialed")
	simrt.Rec("cl.dialed", who, w7Err(err), w7B(err == nil), 0, 0)
	return c, who, err
}

func w7Err(err error) string {
	if err == nil {
		return ""
	}
	s := err.Error()
	if len(s) > 80 {
		s = s[:80]
	}
	return s
}

func (h *w7Harness) runPub(idx int, a *w7Actor) {
	time.Sleep(time.Duration(a.StartMs) * time.Millisecond)
	for si, op := range a.Ops {
		if simrt.Aborted() {
			return
		}
		if op.Op == "sleep" {
			time.Sleep(time.Duration(op.Ms) * time.Millisecond)
			continue
		}
		c, who, err := h.dial(idx, si, a, true)
		if err != nil {
			continue
		}
		w := &gortmplib.Writer{Conn: c, Tracks: []*gortmplib.Track{{Codec: &codecs.H264{SPS: w7SPS, PPS: w7PPS}}}}
		err = w.Initialize()
		simrt.Yield("core/zz_world.go:winit")
		if err == nil {
			for n := int64(0); n < op.N; n++ {
				pts := time.Duration(n*op.Ms) * time.Millisecond
				err = w.WriteH264(w.Tracks[0], pts, pts, [][]byte{{5, byte(idx), byte(si), byte(n)}})
				simrt.Yield("core/zz_world.go:wrote")
				if err != nil {
					break
				}
				time.Sleep(time.Duration(op.Ms) * time.Millisecond)
			}
		}
		simrt.Rec("cl.close", who, w7Err(err), 0, 0, 0)
		c.Close()
		simrt.Yield("core/zz_world.go:closed")
	}
}

func (h *w7Harness) runReader(idx int, a *w7Actor) {
	time.Sleep(time.Duration(a.StartMs) * time.Millisecond)
	for si, op := range a.Ops {
		if simrt.Aborted() {
			return
		}
		if op.Op == "sleep" {
			time.Sleep(time.Duration(op.Ms) * time.Millisecond)
			continue
		}
		c, who, err := h.dial(idx, si, a, false)
		if err != nil {
			continue
		}
		// the session ends when its time is up: closing the connection ends the blocked read
		stop := time.AfterFunc(time.Duration(op.Ms)*time.Millisecond, func() { c.Close() })
		r := &gortmplib.Reader{Conn: c}
		err = r.Initialize()
		simrt.Yield("core/zz_world.go:rinit")
		frames := int64(0)
		if err == nil {
			for _, tr := range r.Tracks() {
				if _, ok := tr.Codec.(*codecs.H264); ok {
					r.OnDataH264(tr, func(pts, dts time.Duration, au [][]byte) { frames++ })
				}
			}
			for {
				err = r.Read()
				simrt.Yield("core/zz_world.go:read")
				if err != nil {
					break
				}
			}
		}
		stop.Stop()
		simrt.Rec("cl.close", who, "", frames, 0, 0)
		c.Close()
		simrt.Yield("core/zz_world.go:closed")
	}
}

func (h *w7Harness) runAPI(a *w7Actor) {
	time.Sleep(time.Duration(a.StartMs) * time.Millisecond)
	for _, op := range a.Ops {
		for n := int64(0); n < op.N && !simrt.Aborted(); n++ {
			list, err := h.srv.APIConnsList()
			if err == nil {
				simrt.Rec("api.list", "", "", int64(len(list.Items)), 0, 0)
				for _, it := range list.Items {
					h.srv.APIConnsGet(it.ID) //nolint:errcheck
				}
			}
			time.Sleep(time.Duration(op.Ms) * time.Millisecond)
		}
	}
}

func (h *w7Harness) runKick(a *w7Actor) {
	time.Sleep(time.Duration(a.StartMs) * time.Millisecond)
	list, err := h.srv.APIConnsList()
	if err != nil {
		return
	}
	for _, it := range list.Items {
		simrt.Rec("kick", it.ID.String(), "", 0, 0, 0)
		h.srv.APIConnsKick(it.ID) //nolint:errcheck
	}
}

func (h *w7Harness) main() {
	dir := filepath.Join(os.TempDir(), "w7run")
	os.RemoveAll(dir)
	os.MkdirAll(dir, 0o755)
	defer os.RemoveAll(dir)
	fp := filepath.Join(dir, "mediamtx.yml")
	os.WriteFile(fp, []byte(h.yaml()), 0o644)
	c0, _, err := conf.Load(fp, nil, nil)
	if err != nil {
		simrt.Violate("!", "infra-conf", "%v", err)
		return
	}
	simnet.Reset()
	externalcmd.SimRun = h.procRun
	pool := &externalcmd.Pool{}
	pool.Initialize()
	am := &auth.Manager{Method: conf.AuthMethodInternal, InternalUsers: c0.AuthInternalUsers, ReadTimeout: 10 * time.Second}
	h.pm = &pathManager{
		logLevel:          conf.LogLevel(logger.Error),
		rtspAddress:       ":8554",
		readTimeout:       c0.ReadTimeout,
		writeTimeout:      c0.WriteTimeout,
		writeQueueSize:    c0.WriteQueueSize,
		udpReadBufferSize: c0.UDPReadBufferSize,
		udpMaxPayloadSize: c0.UDPMaxPayloadSize,
		rtpMaxPayloadSize: 1400,
		pathConfs:         c0.Paths,
		authManager:       &w7AuthProxy{h: h, m: am},
		externalCmdPool:   pool,
		parent:            h,
	}
	h.pm.initialize()
	h.srv = &rtmp.Server{
		Address:         ":1935",
		ReadTimeout:     conf.Duration(10 * time.Second),
		WriteTimeout:    conf.Duration(10 * time.Second),
		RTSPAddress:     ":8554",
		ExternalCmdPool: pool,
		PathManager:     &w7PMProxy{h: h, pm: h.pm},
		Parent:          h,
	}
	if h.body.Hooks {
		h.srv.RunOnConnect = "simhook connect"
		h.srv.RunOnDisconnect = "simhook disconnect"
	}
	if err = h.srv.Initialize(); err != nil {
		simrt.Violate("!", "infra", "rtmp server: %v", err)
		return
	}
	simrt.Rec("init.done", "", "", 0, 0, 0)

	var wg sync.WaitGroup
	for i := range h.body.Actors {
		i := i
		a := &h.body.Actors[i]
		if a.Kind == "nop" || len(a.Ops) == 0 {
			continue
		}
		wg.Add(1)
		go func() {
			defer wg.Done()
			switch a.Kind {
			case "pub":
				h.runPub(i, a)
			case "rd":
				h.runReader(i, a)
			case "kick":
				h.runKick(a)
			case "api":
				h.runAPI(a)
			}
		}()
	}
	wg.Wait()
	simrt.Rec("actors.done", "", "", 0, 0, 0)
	time.Sleep(time.Duration(h.body.TailMs) * time.Millisecond)
	simrt.Rec("shutdown.call", "", "", 0, 0, 0)
	h.srv.Close()
	h.pm.close()
	// every connection and path is gone: no pair may be open any more (a pair left open also
	// keeps its command running, and the pool below would wait for it for ever)
	if !simrt.Aborted() {
		h.checkHooks()
	}
	if len(h.viol) > 0 {
		// hand them to the scheduler: the run ends here, with whatever is still running
		vs := h.viol
		h.viol = nil
		for _, v := range vs {
			simrt.Violate(v.Property, v.Clause, "%s", v.Detail)
		}
		return
	}
	pool.Close()
	simrt.Rec("shutdown.ret", "", "", 0, 0, 0)
	if !simrt.Aborted() {
		h.mu.Lock()
		started, announced := h.procSeq, int64(len(h.hookLog))
		h.mu.Unlock()
		if started != announced {
			h.violate("C20", "hook-not-executed", "%d hook commands were announced, %d were executed by the time the server had shut down", announced, started)
		}
	}
}

// checkHooks: well-formed pairs per connection.
func (h *w7Harness) checkHooks() {
	h.mu.Lock()
	evs := append([]w7HookEv(nil), h.hookLog...)
	h.mu.Unlock()
	sort.Slice(evs, func(a, b int) bool { return evs[a].seq < evs[b].seq })
	type st struct{ open, closed int }
	pairs := map[string]*st{}
	var keys []string
	get := func(k string) *st {
		if pairs[k] == nil {
			pairs[k] = &st{}
			keys = append(keys, k)
		}
		return pairs[k]
	}
	for _, e := range evs {
		switch e.kind {
		case "connect", "read":
			s := get(e.kind + "|" + e.id)
			s.open++
			if s.open > 1 {
				h.violate("C20", "pair-opened-twice", "hook %s ran %d times for %s %s", e.kind, s.open, w7Of(e.kind), e.id)
			}
		case "disconnect", "unread":
			open := map[string]string{"disconnect": "connect", "unread": "read"}[e.kind]
			s := get(open + "|" + e.id)
			s.closed++
			if s.closed > s.open {
				h.violate("C20", "close-without-open", "hook %s ran for %s %s, %d times, after %d run(s) of the opening hook", e.kind, w7Of(e.kind), e.id, s.closed, s.open)
			}
		}
	}
	sort.Strings(keys)
	for _, k := range keys {
		if s := pairs[k]; s.open != s.closed {
			h.violate("C20", "pair-left-open", "after shutdown the pair %s was opened %d time(s) and closed %d time(s)", k, s.open, s.closed)
		}
	}
}

func w7Of(kind string) string {
	if kind == "read" || kind == "unread" {
		return "reader"
	}
	return "connection"
}

func (w *w7World) Run(t *testing.T, sc *simrt.Scenario, cfg simrt.Config) simrt.Outcome {
	var b w7Body
	if err := json.Unmarshal(sc.Body, &b); err != nil {
		return simrt.Outcome{Violations: []simrt.Violation{{Property: "!", Clause: "bad-scenario", Detail: err.Error()}}}
	}
	h := &w7Harness{body: &b, clients: map[string]*w7Client{}}
	res := simrt.Run(t, cfg, h.main)
	out := simrt.Outcome{Res: res}
	out.Violations = append(out.Violations, res.Violations...)
	out.Violations = append(out.Violations, h.viol...)
	out.Nontrivial = h.attached > 0 && h.refused > 0
	out.Abstract = []string{fmt.Sprintf("hooks%v a%d r%d", b.Hooks, h.attached, h.refused), res.Hash}
	out.Extra = map[string]any{"attachments": h.attached, "refused_requests": h.refused, "hook_processes": h.procSeq, "hooks_announced": len(h.hookLog),"authentications": len(h.auths)}
	return out
}

var _ = net.IPv4
