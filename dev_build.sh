#!/bin/bash
# dev helper: instrument + build a world test binary into $2 (default /tmp/gi)
set -e
W=${1:-w1}; OUT=${2:-/tmp/gi}; shift; shift || true
export GOFLAGS=-mod=mod GOPROXY=off GOSUMDB=off GOTOOLCHAIN=local
cd /verif && go1.26 build -o bin/goinst ./cmd/goinst
rm -rf $OUT && bin/goinst -cfg worlds/$W/world.json -out $OUT
PKG=$(python3 -c "import json;print(json.load(open('/verif/worlds/$W/world.json')).get('test_pkg','internal/core'))")
cd /repo && go1.26 test -c -vet=off -overlay $OUT/overlay.json -o $OUT/world.test "$@" ./$PKG
