#!/bin/bash
# dev helper: run checks against a seeded change in a scratch worktree of /repo (leaves /repo alone, so
# that registered checks can run on /repo at the same time). dev_mut2.sh <patch> <tier> [--runs N] -- <prop>...
P=$1; TIER=$2; shift 2
EXTRA=()
while [ "$1" != "--" ] && [ $# -gt 0 ]; do EXTRA+=("$1"); shift; done
shift
M=/tmp/repo-mut
[ -d $M ] || git -C /repo worktree add -q --detach $M HEAD || exit 2
git -C $M checkout -q --detach $(git -C /repo rev-parse HEAD) && git -C $M checkout -q -- . && git -C $M clean -fdq
git -C $M apply "$P" || exit 2
for id in "$@"; do
  echo "== $id"
  VERIF_REPO=$M /verif/bin/verif check $id --tier $TIER "${EXTRA[@]}" --no-evidence 2>&1 | grep -v "^  \|^$" | cut -c1-400 | tail -6
done
git -C $M checkout -q -- .
