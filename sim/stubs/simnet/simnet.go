// Package simnet is the simulated TCP network of the /verif front-end worlds
// (mapped to internal/zzsim/simnet through go build -overlay). A listener is
// registered under its address; a dial creates an in-memory full-duplex
// connection (net.Pipe: synchronous, with deadlines on the simulated clock) and
// hands the server end to the listener. Both ends report TCP addresses, the
// client end the address the simulated client has.
package simnet

import (
	"context"
	"errors"
	"fmt"
	"io"
	"net"
	"sync"
	"time"
)

type listener struct {
	addr   *net.TCPAddr
	key    string
	accept chan net.Conn
	done   chan struct{}
	once   sync.Once
}

var (
	mu        sync.Mutex
	listeners = map[string]*listener{}
	nextPort  = 40000
)

// Reset forgets every listener (start of a run).
func Reset() {
	mu.Lock()
	listeners = map[string]*listener{}
	nextPort = 40000
	mu.Unlock()
}

func portKey(address string) (string, int) {
	_, port, err := net.SplitHostPort(address)
	if err != nil {
		return address, 0
	}
	n := 0
	fmt.Sscanf(port, "%d", &n)
	return port, n
}

// Listen registers a listener (only the port of the address matters).
func Listen(network, address string) (net.Listener, error) {
	key, port := portKey(address)
	mu.Lock()
	defer mu.Unlock()
	if _, ok := listeners[key]; ok {
		return nil, fmt.Errorf("listen %s %s: address already in use", network, address)
	}
	l := &listener{addr: &net.TCPAddr{IP: net.IPv4(127, 0, 0, 1), Port: port}, key: key,
		accept: make(chan net.Conn), done: make(chan struct{})}
	listeners[key] = l
	return l, nil
}

func (l *listener) Accept() (net.Conn, error) {
	select {
	case c := <-l.accept:
		return c, nil
	case <-l.done:
		return nil, errors.New("use of closed network connection")
	}
}

func (l *listener) Close() error {
	l.once.Do(func() {
		close(l.done)
		mu.Lock()
		if listeners[l.key] == l {
			delete(listeners, l.key)
		}
		mu.Unlock()
	})
	return nil
}

func (l *listener) Addr() net.Addr { return l.addr }

// half is one direction of a connection: an unbounded byte queue (like a socket buffer that
// never fills: a writer never blocks, which net.Pipe cannot offer and which protocols that
// send acknowledgements while the peer is still writing rely on).
type half struct {
	mu     sync.Mutex
	buf    []byte
	closed bool
	notify chan struct{}
}

func newHalf() *half { return &half{notify: make(chan struct{}, 1)} }

func (h *half) wake() {
	select {
	case h.notify <- struct{}{}:
	default:
	}
}

type conn struct {
	rd, wr        *half
	local, remote *net.TCPAddr

	mu       sync.Mutex
	rdl      time.Time
	closed   bool
	closeCh  chan struct{}
	deadlCh  chan struct{} // closed and replaced whenever the read deadline changes
}

func newConnPair(clientAddr, serverAddr *net.TCPAddr) (client, server *conn) {
	a, b := newHalf(), newHalf()
	client = &conn{rd: a, wr: b, local: clientAddr, remote: serverAddr, closeCh: make(chan struct{}), deadlCh: make(chan struct{})}
	server = &conn{rd: b, wr: a, local: serverAddr, remote: clientAddr, closeCh: make(chan struct{}), deadlCh: make(chan struct{})}
	return
}

type timeoutError struct{}

func (timeoutError) Error() string   { return "i/o timeout" }
func (timeoutError) Timeout() bool   { return true }
func (timeoutError) Temporary() bool { return true }

func (c *conn) Read(p []byte) (int, error) {
	for {
		c.mu.Lock()
		closed, dl, dch := c.closed, c.rdl, c.deadlCh
		c.mu.Unlock()
		if closed {
			return 0, errors.New("use of closed network connection")
		}
		c.rd.mu.Lock()
		if len(c.rd.buf) > 0 {
			n := copy(p, c.rd.buf)
			c.rd.buf = c.rd.buf[n:]
			more := len(c.rd.buf) > 0
			c.rd.mu.Unlock()
			if more {
				c.rd.wake()
			}
			return n, nil
		}
		eof := c.rd.closed
		c.rd.mu.Unlock()
		if eof {
			return 0, io.EOF
		}
		var timer <-chan time.Time
		if !dl.IsZero() {
			d := time.Until(dl)
			if d <= 0 {
				return 0, timeoutError{}
			}
			t := time.NewTimer(d)
			defer t.Stop()
			timer = t.C
		}
		select {
		case <-c.rd.notify:
		case <-c.closeCh:
		case <-dch:
		case <-timer:
			return 0, timeoutError{}
		}
	}
}

func (c *conn) Write(p []byte) (int, error) {
	c.mu.Lock()
	closed := c.closed
	c.mu.Unlock()
	if closed {
		return 0, errors.New("use of closed network connection")
	}
	c.wr.mu.Lock()
	if c.wr.closed {
		c.wr.mu.Unlock()
		return 0, errors.New("write: broken pipe")
	}
	c.wr.buf = append(c.wr.buf, p...)
	c.wr.mu.Unlock()
	c.wr.wake()
	return len(p), nil
}

func (c *conn) Close() error {
	c.mu.Lock()
	if c.closed {
		c.mu.Unlock()
		return nil
	}
	c.closed = true
	close(c.closeCh)
	c.mu.Unlock()
	// the peer reads what is queued, then end of file; its own writes fail
	for _, h := range []*half{c.wr, c.rd} {
		h.mu.Lock()
		h.closed = true
		h.mu.Unlock()
		h.wake()
	}
	return nil
}

func (c *conn) LocalAddr() net.Addr  { return c.local }
func (c *conn) RemoteAddr() net.Addr { return c.remote }

func (c *conn) SetDeadline(t time.Time) error { return c.SetReadDeadline(t) }

func (c *conn) SetReadDeadline(t time.Time) error {
	c.mu.Lock()
	c.rdl = t
	close(c.deadlCh)
	c.deadlCh = make(chan struct{})
	c.mu.Unlock()
	return nil
}

// SetWriteDeadline has nothing to bound: writes never block.
func (c *conn) SetWriteDeadline(t time.Time) error { return nil }

// Dialer returns a DialContext function for a simulated client that has the address clientIP.
func Dialer(clientIP string) func(ctx context.Context, network, address string) (net.Conn, error) {
	return func(ctx context.Context, network, address string) (net.Conn, error) {
		key, _ := portKey(address)
		mu.Lock()
		l := listeners[key]
		nextPort++
		cport := nextPort
		mu.Unlock()
		if l == nil {
			return nil, fmt.Errorf("dial %s %s: connection refused", network, address)
		}
		ca := &net.TCPAddr{IP: net.ParseIP(clientIP), Port: cport}
		cc, sc := newConnPair(ca, l.addr)
		select {
		case l.accept <- sc:
		case <-l.done:
			return nil, fmt.Errorf("dial %s %s: connection refused", network, address)
		case <-ctx.Done():
			return nil, ctx.Err()
		}
		return cc, nil
	}
}
