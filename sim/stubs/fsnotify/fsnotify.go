// Package fsnotify is a simulated stand-in for github.com/fsnotify/fsnotify,
// used by the /verif simulation worlds only (mapped to
// internal/zzsim/fsnotify through go build -overlay). The harness performs real
// file operations and then feeds the corresponding events to the watchers.
package fsnotify

import (
	"strings"
	"sync"
)

// Op describes a set of file operations.
type Op uint32

// Operations, with the values of the real package.
const (
	Create Op = 1 << iota
	Write
	Remove
	Rename
	Chmod
)

// Has reports whether this operation has the given operation.
func (o Op) Has(h Op) bool { return o&h != 0 }

func (o Op) String() string {
	var b []string
	for _, x := range []struct {
		o Op
		s string
	}{{Create, "CREATE"}, {Write, "WRITE"}, {Remove, "REMOVE"}, {Rename, "RENAME"}, {Chmod, "CHMOD"}} {
		if o.Has(x.o) {
			b = append(b, x.s)
		}
	}
	return strings.Join(b, "|")
}

// Event is a file system notification.
type Event struct {
	Name string
	Op   Op
}

// Has reports whether this event has the given operation.
func (e Event) Has(op Op) bool { return e.Op.Has(op) }

func (e Event) String() string { return e.Op.String() + " " + e.Name }

// Watcher is a simulated watcher.
type Watcher struct {
	Events chan Event
	Errors chan error

	mu     sync.Mutex
	dirs   []string
	closed bool
}

var (
	regMu    sync.Mutex
	watchers []*Watcher
)

// NewWatcher creates a Watcher and registers it with the simulation.
func NewWatcher() (*Watcher, error) {
	w := &Watcher{Events: make(chan Event), Errors: make(chan error)}
	regMu.Lock()
	watchers = append(watchers, w)
	regMu.Unlock()
	return w, nil
}

// Add records a watched directory.
func (w *Watcher) Add(path string) error {
	w.mu.Lock()
	w.dirs = append(w.dirs, path)
	w.mu.Unlock()
	return nil
}

// Close closes the watcher.
func (w *Watcher) Close() error {
	w.mu.Lock()
	w.closed = true
	w.mu.Unlock()
	return nil
}

// Dirs returns the watched directories.
func (w *Watcher) Dirs() []string {
	w.mu.Lock()
	defer w.mu.Unlock()
	return append([]string(nil), w.dirs...)
}

// Closed reports whether Close has been called.
func (w *Watcher) Closed() bool {
	w.mu.Lock()
	defer w.mu.Unlock()
	return w.closed
}

// SimWatchers returns the watchers created since the last SimReset.
func SimWatchers() []*Watcher {
	regMu.Lock()
	defer regMu.Unlock()
	return append([]*Watcher(nil), watchers...)
}

// SimReset forgets all watchers (start of a run).
func SimReset() {
	regMu.Lock()
	watchers = nil
	regMu.Unlock()
}
