package porcupine

// Annotation stands in for the type of porcupine's visualization.go, which is
// left out (it embeds HTML assets and is not used by the checks).
type Annotation struct {
	ClientId        int
	Tag             string
	Start           int64
	End             int64
	Description     string
	Details         string
	TextColor       string
	BackgroundColor string
}
