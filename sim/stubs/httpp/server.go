// Package httpp contains HTTP utilities.
package httpp

// Simulation stub of server.go: the same Server type and the same handler
// chain (origin, server header, request filter, logger, write timeout,
// tracker), without a listener: the simulated network hands requests to
// SimServe. handlerExitOnPanic is left out so that a panic in a handler
// reaches the harness, which records it as a violation instead of exiting.

import (
	"crypto/tls"
	"fmt"
	"net/http"
	"sync"
	"time"

	"github.com/bluenviron/mediamtx/internal/logger"
)

// Server is a wrapper around http.Server (simulated: no listener).
type Server struct {
	Address           string
	AllowOrigins      []string
	DumpPackets       bool
	DumpPacketsPrefix string
	ReadTimeout       time.Duration
	WriteTimeout      time.Duration
	Encryption        bool
	ServerCert        string
	ServerKey         string
	AllowAutoCert     bool
	GetCertificate    func(*tls.ClientHelloInfo) (*tls.Certificate, error)
	Handler           http.Handler
	Parent            logger.Writer

	h       http.Handler
	tracker *handlerTracker
}

var (
	simMutex   sync.Mutex
	simServers = map[string]*Server{}
)

// SimServer returns the server that "listens" on address, if any.
func SimServer(address string) *Server {
	simMutex.Lock()
	defer simMutex.Unlock()
	return simServers[address]
}

// SimReset forgets every server (start of a run: a run that was aborted leaves its servers open).
func SimReset() {
	simMutex.Lock()
	defer simMutex.Unlock()
	simServers = map[string]*Server{}
}

// Initialize initializes a Server.
func (s *Server) Initialize() error {
	if s.ReadTimeout == 0 {
		return fmt.Errorf("invalid ReadTimeout")
	}
	if s.WriteTimeout == 0 {
		return fmt.Errorf("invalid WriteTimeout")
	}

	h := s.Handler
	h = &handlerOrigin{h, s.AllowOrigins}
	h = &handlerServerHeader{h}
	h = &handlerFilterRequests{h}
	h = &handlerLogger{h, s.Parent}
	h = &handlerWriteTimeout{h, s.WriteTimeout}
	s.tracker = &handlerTracker{h: h}
	s.h = s.tracker

	simMutex.Lock()
	defer simMutex.Unlock()
	if _, ok := simServers[s.Address]; ok {
		return fmt.Errorf("listen tcp %s: bind: address already in use", s.Address)
	}
	simServers[s.Address] = s
	return nil
}

// SimServe serves one request that the simulated network delivers.
func (s *Server) SimServe(w http.ResponseWriter, r *http.Request) {
	s.h.ServeHTTP(w, r)
}

// Close closes all resources and waits for all routines to return.
func (s *Server) Close() {
	simMutex.Lock()
	if simServers[s.Address] == s {
		delete(simServers, s.Address)
	}
	simMutex.Unlock()

	s.tracker.close()
}
