//go:build !windows

package externalcmd

import "fmt"

// SimRun replaces the operating-system process of a hook command in the
// /verif simulation worlds. It returns the exit code of the simulated
// process, or terminated=true when the process was stopped through terminate.
var SimRun func(cmdstr string, env Environment, terminate chan struct{}) (code int, terminated bool)

func (c *Cmd) runOSSpecific(cmdstr string, _ []string) error {
	code, terminated := SimRun(cmdstr, c.Env, c.terminate)
	if terminated {
		return errTerminated
	}
	if code != 0 {
		return fmt.Errorf("command exited with code %d", code)
	}
	return nil
}
