// Package rtp is replaced, in the /verif simulation worlds only, by a
// simulated pulled source driven by the harness.
package rtp

import (
	"github.com/bluenviron/mediamtx/internal/conf"
	"github.com/bluenviron/mediamtx/internal/defs"
	"github.com/bluenviron/mediamtx/internal/logger"
)

// Parent is what the static source handler offers to a source.
type Parent interface {
	logger.Writer
	SetReady(req defs.PathSourceStaticSetReadyReq) defs.PathSourceStaticSetReadyRes
	SetNotReady(req defs.PathSourceStaticSetNotReadyReq)
}

// SimRun is the behaviour of the simulated source, installed by the harness.
var SimRun func(s *Source, params defs.StaticSourceRunParams) error

// Source is the simulated RTP static source.
type Source struct {
	DumpPackets       bool
	ReadTimeout       conf.Duration
	UDPReadBufferSize uint
	Parent            Parent
}

// Log implements logger.Writer.
func (s *Source) Log(level logger.Level, format string, args ...any) {
	s.Parent.Log(level, "[SIM source] "+format, args...)
}

// Run implements StaticSource.
func (s *Source) Run(params defs.StaticSourceRunParams) error {
	return SimRun(s, params)
}

// APISourceDescribe implements StaticSource.
func (*Source) APISourceDescribe() *defs.APIPathSource {
	return &defs.APIPathSource{
		Type: defs.APIPathSourceTypeRTPSource,
		ID:   "",
	}
}
