// Package comprec is the registry behind the recording stand-ins of the
// socket-owning components (world W6, property C13). A stand-in reports its
// creation and its end here; the harness asks which instances exist, which are
// live, and renders the arguments a component currently runs with.
//
// Everything runs under the serial simrt scheduler, one goroutine at a time.
package comprec

import (
	"fmt"
	"reflect"
	"regexp"
	"sort"
	"strings"
)

// Info describes one component instance.
type Info struct {
	Kind   string
	Seq    int // creation order within the run
	Ptr    any // the component (pointer to struct)
	Inits  int
	Closes int
	// BackRefs: what the component was told about after its creation (SetXServer style), by name
	BackRefs map[string]any
}

// Live tells whether the instance has been initialized and not closed.
func (i *Info) Live() bool { return i.Inits > 0 && i.Closes == 0 }

var (
	reg   = map[any]*Info{}
	order []*Info
	// FailInit, when set by the harness, can make an Initialize fail (a port in use, a missing certificate).
	FailInit func(kind string, comp any) error
	// OnEvent, when set, is told about every creation and end.
	OnEvent func(what string, i *Info)
)

// Reset forgets everything (start of a run).
func Reset() {
	reg = map[any]*Info{}
	order = nil
	FailInit = nil
	OnEvent = nil
}

// Init is called by the Initialize of a stand-in.
func Init(kind string, comp any) error {
	if FailInit != nil {
		if err := FailInit(kind, comp); err != nil {
			return err
		}
	}
	i := reg[comp]
	if i == nil {
		i = &Info{Kind: kind, Seq: len(order) + 1, Ptr: comp, BackRefs: map[string]any{}}
		reg[comp] = i
		order = append(order, i)
	}
	i.Inits++
	if OnEvent != nil {
		OnEvent("init", i)
	}
	return nil
}

// Close is called by the Close of a stand-in.
func Close(comp any) {
	i := reg[comp]
	if i == nil {
		i = &Info{Kind: "?", Seq: len(order) + 1, Ptr: comp, BackRefs: map[string]any{}}
		reg[comp] = i
		order = append(order, i)
	}
	i.Closes++
	if OnEvent != nil {
		OnEvent("close", i)
	}
}

// Lookup returns what is known about a component pointer (nil if it never reported).
func Lookup(comp any) *Info { return reg[comp] }

// All returns every instance in creation order.
func All() []*Info { return order }

// SetBackRef records that comp was handed a reference under a name (nil clears it).
func SetBackRef(comp any, name string, ref any) {
	i := reg[comp]
	if i == nil {
		return
	}
	if IsNil(ref) {
		delete(i.BackRefs, name)
		return
	}
	i.BackRefs[name] = ref
}

// Note counts a call a live component received (e.g. PathReady).
func Note(comp any, what string) {
	i := reg[comp]
	if i == nil {
		return
	}
	if OnEvent != nil {
		OnEvent(what, i)
	}
}

// IsNil tells whether v is nil or an interface holding a nil pointer/map/slice/func/chan.
func IsNil(v any) bool {
	if v == nil {
		return true
	}
	rv := reflect.ValueOf(v)
	switch rv.Kind() {
	case reflect.Pointer, reflect.Map, reflect.Slice, reflect.Func, reflect.Chan, reflect.Interface, reflect.UnsafePointer:
		return rv.IsNil()
	}
	return false
}

// CallIfPresent calls method name on target (an interface value that may hold a nil pointer)
// with the given arguments when target is non-nil and has such a method.
func CallIfPresent(target any, name string, args ...any) []reflect.Value {
	if IsNil(target) {
		return nil
	}
	m := reflect.ValueOf(target).MethodByName(name)
	if !m.IsValid() {
		return nil
	}
	in := make([]reflect.Value, len(args))
	for k, a := range args {
		if a == nil {
			in[k] = reflect.Zero(m.Type().In(k))
		} else {
			in[k] = reflect.ValueOf(a)
		}
	}
	return m.Call(in)
}

// RefNamer names a pointer that designates a component (or another object the harness knows);
// ok=false means "not a component: render its content".
type RefNamer func(addr uintptr) (name string, ok bool)

// Addr returns the address a component pointer designates (0 for nil).
func Addr(ptr any) uintptr {
	if IsNil(ptr) {
		return 0
	}
	rv := reflect.ValueOf(ptr)
	if rv.Kind() != reflect.Pointer {
		return 0
	}
	return rv.Pointer()
}

var regexpType = reflect.TypeOf((*regexp.Regexp)(nil))

// Render gives a canonical, deterministic text of a value: pointers are followed, maps are
// sorted by key, component references are replaced by the name the RefNamer gives them.
// It reads unexported fields too (never calls Interface on them).
func Render(v reflect.Value, namer RefNamer) string {
	var b strings.Builder
	render(&b, v, namer, 0)
	return b.String()
}

func render(b *strings.Builder, v reflect.Value, namer RefNamer, depth int) {
	if depth > 12 {
		b.WriteString("<deep>")
		return
	}
	if !v.IsValid() {
		b.WriteString("nil")
		return
	}
	switch v.Kind() {
	case reflect.Interface:
		if v.IsNil() {
			b.WriteString("nil")
			return
		}
		render(b, v.Elem(), namer, depth)
	case reflect.Pointer:
		if v.IsNil() {
			b.WriteString("nil")
			return
		}
		if namer != nil {
			if name, ok := namer(v.Pointer()); ok {
				b.WriteString("@" + name)
				return
			}
		}
		if v.Type() == regexpType {
			// the source text (readable through reflection also behind unexported fields)
			if e := v.Elem().FieldByName("expr"); e.IsValid() && e.Kind() == reflect.String {
				b.WriteString("re:" + e.String())
			} else {
				b.WriteString("re")
			}
			return
		}
		b.WriteString("&")
		render(b, v.Elem(), namer, depth+1)
	case reflect.Struct:
		b.WriteString("{")
		t := v.Type()
		for k := 0; k < v.NumField(); k++ {
			if k > 0 {
				b.WriteString(" ")
			}
			b.WriteString(t.Field(k).Name + ":")
			render(b, v.Field(k), namer, depth+1)
		}
		b.WriteString("}")
	case reflect.Map:
		if v.IsNil() {
			b.WriteString("nil")
			return
		}
		type kv struct {
			k string
			v reflect.Value
		}
		var kvs []kv
		it := v.MapRange()
		for it.Next() {
			var kb strings.Builder
			render(&kb, it.Key(), namer, depth+1)
			kvs = append(kvs, kv{kb.String(), it.Value()})
		}
		sort.Slice(kvs, func(a, c int) bool { return kvs[a].k < kvs[c].k })
		b.WriteString("map[")
		for k, e := range kvs {
			if k > 0 {
				b.WriteString(" ")
			}
			b.WriteString(e.k + ":")
			render(b, e.v, namer, depth+1)
		}
		b.WriteString("]")
	case reflect.Slice, reflect.Array:
		if v.Kind() == reflect.Slice && v.IsNil() {
			b.WriteString("nil")
			return
		}
		if v.Type().Elem().Kind() == reflect.Uint8 {
			fmt.Fprintf(b, "bytes%x", bytesOf(v))
			return
		}
		b.WriteString("[")
		for k := 0; k < v.Len(); k++ {
			if k > 0 {
				b.WriteString(" ")
			}
			render(b, v.Index(k), namer, depth+1)
		}
		b.WriteString("]")
	case reflect.String:
		fmt.Fprintf(b, "%q", v.String())
	case reflect.Bool:
		fmt.Fprintf(b, "%v", v.Bool())
	case reflect.Int, reflect.Int8, reflect.Int16, reflect.Int32, reflect.Int64:
		fmt.Fprintf(b, "%d", v.Int())
	case reflect.Uint, reflect.Uint8, reflect.Uint16, reflect.Uint32, reflect.Uint64, reflect.Uintptr:
		fmt.Fprintf(b, "%d", v.Uint())
	case reflect.Float32, reflect.Float64:
		fmt.Fprintf(b, "%v", v.Float())
	case reflect.Func:
		if v.IsNil() {
			b.WriteString("nil")
		} else {
			b.WriteString("func")
		}
	case reflect.Chan:
		if v.IsNil() {
			b.WriteString("nil")
		} else {
			b.WriteString("chan")
		}
	default:
		b.WriteString("<" + v.Kind().String() + ">")
	}
}

func bytesOf(v reflect.Value) []byte {
	out := make([]byte, v.Len())
	for k := range out {
		out[k] = byte(v.Index(k).Uint())
	}
	return out
}
