package metrics

import "github.com/bluenviron/mediamtx/internal/zzsim/comprec"

func (m *Metrics) zzAfterInit()   {}
func (m *Metrics) zzBeforeClose() {}

// the real exporter is told about the components it reports on.

func (m *Metrics) SetPathManager(v any)  { comprec.SetBackRef(m, "pathManager", v) }
func (m *Metrics) SetRTSPServer(v any)   { comprec.SetBackRef(m, "rtspServer", v) }
func (m *Metrics) SetRTSPSServer(v any)  { comprec.SetBackRef(m, "rtspsServer", v) }
func (m *Metrics) SetRTMPServer(v any)   { comprec.SetBackRef(m, "rtmpServer", v) }
func (m *Metrics) SetRTMPSServer(v any)  { comprec.SetBackRef(m, "rtmpsServer", v) }
func (m *Metrics) SetHLSServer(v any)    { comprec.SetBackRef(m, "hlsServer", v) }
func (m *Metrics) SetWebRTCServer(v any) { comprec.SetBackRef(m, "webRTCServer", v) }
func (m *Metrics) SetSRTServer(v any)    { comprec.SetBackRef(m, "srtServer", v) }
func (m *Metrics) SetMoQServer(v any)    { comprec.SetBackRef(m, "moqServer", v) }
