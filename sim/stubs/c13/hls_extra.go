package hls

import (
	"github.com/bluenviron/mediamtx/internal/defs"
	"github.com/bluenviron/mediamtx/internal/zzsim/comprec"
)

// the real Server registers itself in the metrics exporter and in the path manager
// (which then tells it about ready paths) and removes itself when it is closed.
func (s *Server) zzAfterInit() {
	comprec.CallIfPresent(s.Metrics, "SetHLSServer", s)
	comprec.CallIfPresent(s.PathManager, "SetHLSServer", s)
}

func (s *Server) zzBeforeClose() {
	comprec.CallIfPresent(s.PathManager, "SetHLSServer", (*Server)(nil))
	comprec.CallIfPresent(s.Metrics, "SetHLSServer", nil)
}

// PathReady is called by the path manager.
func (s *Server) PathReady(pa defs.Path) { comprec.Note(s, "pathReady") }

// PathNotReady is called by the path manager.
func (s *Server) PathNotReady(pa defs.Path) { comprec.Note(s, "pathNotReady") }
