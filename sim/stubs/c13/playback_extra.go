package playback

import "github.com/bluenviron/mediamtx/internal/conf"

func (s *Server) zzAfterInit()   {}
func (s *Server) zzBeforeClose() {}

// ReloadPathConfs is called by core: the running server takes the new path configurations.
func (s *Server) ReloadPathConfs(pathConfs map[string]*conf.Path) { s.PathConfs = pathConfs }
