package srt

import "github.com/bluenviron/mediamtx/internal/zzsim/comprec"

// the real Server registers itself in the metrics exporter after it started and
// removes itself when it is closed.
func (s *Server) zzAfterInit()   { comprec.CallIfPresent(s.Metrics, "SetSRTServer", s) }
func (s *Server) zzBeforeClose() { comprec.CallIfPresent(s.Metrics, "SetSRTServer", nil) }
