package api

import "sync"

// The real API server tracks the HTTP handlers that are running and its Close waits for
// them (httpp.Server.Close: Shutdown, then handlerTracker.close). A handler of a
// configuration edit is blocked inside Core until Core's routine takes its request, so
// this waiting is part of the interface Core relies on. The stand-in reproduces it: the
// harness enters a request before it calls Core, like the handler chain does.

var (
	zzMu       sync.Mutex
	zzInflight = map[*API]*sync.WaitGroup{}
	zzClosed   = map[*API]bool{}
)

// ZZEnter registers a request that the server has accepted; the returned function ends it.
// ok is false when the server is closed (the client would get "connection refused").
func (s *API) ZZEnter() (leave func(), ok bool) {
	zzMu.Lock()
	defer zzMu.Unlock()
	if s == nil || zzClosed[s] {
		return nil, false
	}
	wg := zzInflight[s]
	if wg == nil {
		wg = &sync.WaitGroup{}
		zzInflight[s] = wg
	}
	wg.Add(1)
	return wg.Done, true
}

func (s *API) zzAfterInit() {}

func (s *API) zzBeforeClose() {
	zzMu.Lock()
	zzClosed[s] = true
	wg := zzInflight[s]
	zzMu.Unlock()
	if wg != nil {
		wg.Wait()
	}
}

// ZZReset forgets every server (start of a run).
func ZZReset() {
	zzMu.Lock()
	zzInflight = map[*API]*sync.WaitGroup{}
	zzClosed = map[*API]bool{}
	zzMu.Unlock()
}
