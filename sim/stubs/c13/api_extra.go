package api

func (s *API) zzAfterInit()   {}
func (s *API) zzBeforeClose() {}
