package pprof

func (s *PPROF) zzAfterInit()   {}
func (s *PPROF) zzBeforeClose() {}
