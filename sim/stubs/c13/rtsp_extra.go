package rtsp

import "github.com/bluenviron/mediamtx/internal/zzsim/comprec"

func (s *Server) zzSetter() string {
	if b, ok := s.Encryption.(bool); ok && b {
		return "SetRTSPSServer"
	}
	return "SetRTSPServer"
}

// the real Server registers itself in the metrics exporter after it started and
// removes itself when it is closed.
func (s *Server) zzAfterInit()   { comprec.CallIfPresent(s.Metrics, s.zzSetter(), s) }
func (s *Server) zzBeforeClose() { comprec.CallIfPresent(s.Metrics, s.zzSetter(), nil) }
