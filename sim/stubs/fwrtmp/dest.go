// Package rtmp is replaced, in the /verif simulation worlds only, by a
// simulated forward destination driven by the harness.
package rtmp

import (
	"context"

	"github.com/bluenviron/mediamtx/internal/conf"
	"github.com/bluenviron/mediamtx/internal/logger"
	"github.com/bluenviron/mediamtx/internal/stream"
)

// SimRun is the behaviour of the simulated forwarder, installed by the harness.
var SimRun func(d *Dest, ctx context.Context) error

// Dest is the simulated RTMP forward destination.
type Dest struct {
	Stream          *stream.Stream
	Dest            string
	DestFingerprint string
	WriteTimeout    conf.Duration
	Parent          logger.Writer
}

// Run implements forward.Dest.
func (d *Dest) Run(ctx context.Context) error {
	return SimRun(d, ctx)
}

// OutboundBytes implements forward.Dest.
func (d *Dest) OutboundBytes() uint64 {
	return 0
}
