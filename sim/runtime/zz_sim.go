// Added to package runtime through `go build -overlay` by /verif (never part
// of a shipped build): deterministic select poll order inside synctest
// bubbles and a goroutine id accessor for the cooperative scheduler.
package runtime

import (
	"internal/runtime/atomic"
	"unsafe"
)

var simSelState atomic.Uint64

// SimSetSelectSeed sets the state from which select poll orders are derived
// for goroutines inside a synctest bubble. 0 restores the default behaviour.
func SimSetSelectSeed(s uint64) { simSelState.Store(s) }

// SimGoid returns the id of the calling goroutine.
func SimGoid() uint64 { return getg().goid }

func simselrandn(n uint32) uint32 {
	if getg().bubble == nil {
		return cheaprandn(n)
	}
	st := simSelState.Load()
	if st == 0 {
		return cheaprandn(n)
	}
	x := simSelState.Add(-0x61C8864680B583EB)
	x ^= x >> 30
	x *= 0xBF58476D1CE4E5B9
	x ^= x >> 27
	x *= 0x94D049BB133111EB
	x ^= x >> 31
	return uint32((uint64(uint32(x)) * uint64(n)) >> 32)
}

// SimSetLocal / SimGetLocal keep one pointer per goroutine for the simulator.
// The profiler-label slot of the g is used (mediamtx does not use profiler
// labels); new goroutines inherit it from their creator.
func SimSetLocal(p unsafe.Pointer) { getg().labels = p }

// SimGetLocal returns the pointer stored by SimSetLocal.
func SimGetLocal() unsafe.Pointer { return getg().labels }
