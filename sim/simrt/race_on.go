//go:build race

package simrt

import "runtime"

// RaceEnabled reports whether the binary was built with the race detector.
const RaceEnabled = true

//go:norace
func raceDisable() { runtime.RaceDisable() }

//go:norace
func raceEnable() { runtime.RaceEnable() }

// RaceErrors returns the number of races reported so far.
func RaceErrors() int { return runtime.RaceErrors() }
