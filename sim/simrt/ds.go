package simrt

// Data structures of the simulator that are shared between simulated
// goroutines. They avoid Go maps, growing appends and copy(): the runtime
// helpers behind those carry race-detector annotations even when the caller
// is a go:norace function, and the simulator's own synchronisation is hidden
// from the detector on purpose. Everything here is plain loads and stores.

const chunkSize = 256

type chunk[T any] struct {
	items [chunkSize]T
	n     int
	next  *chunk[T]
}

// chunkList is an append-only list.
type chunkList[T any] struct {
	head, tail *chunk[T]
	n          int
}

//go:norace
func (l *chunkList[T]) add(v T) {
	if l.tail == nil || l.tail.n == chunkSize {
		c := &chunk[T]{}
		if l.tail == nil {
			l.head = c
		} else {
			l.tail.next = c
		}
		l.tail = c
	}
	l.tail.items[l.tail.n] = v
	l.tail.n++
	l.n++
}

// slice copies the list into a fresh slice (element by element).
//
//go:norace
func (l *chunkList[T]) slice() []T {
	out := make([]T, l.n)
	i := 0
	for c := l.head; c != nil; c = c.next {
		for j := 0; j < c.n; j++ {
			out[i] = c.items[j]
			i++
		}
	}
	return out
}

// strCounter maps strings to counters (open addressing, grows by rebuilding
// into a freshly allocated table with plain stores).
type strCounter struct {
	keys []string
	vals []int64
	used int
}

//go:norace
func strHash(s string) uint64 {
	h := uint64(14695981039346656037)
	for i := 0; i < len(s); i++ {
		h ^= uint64(s[i])
		h *= 1099511628211
	}
	return h
}

//go:norace
func (m *strCounter) slot(k string) int {
	mask := uint64(len(m.keys) - 1)
	i := strHash(k) & mask
	for m.keys[i] != "" && m.keys[i] != k {
		i = (i + 1) & mask
	}
	return int(i)
}

//go:norace
func (m *strCounter) add(k string, n int64) {
	if k == "" {
		k = "?"
	}
	if len(m.keys) == 0 {
		m.keys = make([]string, 1024)
		m.vals = make([]int64, 1024)
	}
	if m.used*2 >= len(m.keys) {
		ok, ov := m.keys, m.vals
		m.keys = make([]string, len(ok)*2)
		m.vals = make([]int64, len(ok)*2)
		for i := 0; i < len(ok); i++ {
			if ok[i] != "" {
				j := m.slot(ok[i])
				m.keys[j] = ok[i]
				m.vals[j] = ov[i]
			}
		}
	}
	i := m.slot(k)
	if m.keys[i] == "" {
		m.keys[i] = k
		m.used++
	}
	m.vals[i] += n
}

// toMap copies the counters into an ordinary map (called once, at the end).
//
//go:norace
func (m *strCounter) toMap() map[string]int64 {
	out := make(map[string]int64, m.used)
	for i := 0; i < len(m.keys); i++ {
		if m.keys[i] != "" {
			out[m.keys[i]] = m.vals[i]
		}
	}
	return out
}

type anyEntry struct {
	k any
	v int64
}

// anyTable maps comparable values held in interfaces to integers (linear search).
type anyTable struct{ l chunkList[anyEntry] }

//go:norace
func (t *anyTable) find(k any) *anyEntry {
	for c := t.l.head; c != nil; c = c.next {
		for i := 0; i < c.n; i++ {
			if c.items[i].k == k {
				return &c.items[i]
			}
		}
	}
	return nil
}

//go:norace
func (t *anyTable) get(k any) (int64, bool) {
	if e := t.find(k); e != nil {
		return e.v, true
	}
	return 0, false
}

//go:norace
func (t *anyTable) set(k any, v int64) {
	if e := t.find(k); e != nil {
		e.v = v
		return
	}
	t.l.add(anyEntry{k, v})
}
