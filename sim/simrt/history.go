package simrt

import (
	"fmt"
	"sync/atomic"
	"time"
)

// Ev is one entry of the recorded history. Seq is the global event sequence
// number (a total order consistent with the serialised execution).
type Ev struct {
	Seq     int64         `json:"seq"`
	Step    int64         `json:"step"`
	T       time.Duration `json:"t"`
	G       int           `json:"g"`
	Kind    string        `json:"k"`
	A       string        `json:"a,omitempty"`
	B       string        `json:"b,omitempty"`
	N       int64         `json:"n,omitempty"`
	M       int64         `json:"m,omitempty"`
	K       int64         `json:"x,omitempty"`
	Foreign bool          `json:"f,omitempty"`
}

func (e Ev) String() string {
	return fmt.Sprintf("#%d s%d %s g%d %s a=%q b=%q n=%d m=%d x=%d", e.Seq, e.Step, e.T, e.G, e.Kind, e.A, e.B, e.N, e.M, e.K)
}

// Rec appends an event to the history and returns its sequence number.
//
//go:norace
func Rec(kind, a, b string, n, m, k int64) int64 {
	s := current()
	if s == nil {
		return 0
	}
	g := s.lookup()
	line := fmt.Sprintf("ev %s %s %s %d %d %d", kind, a, b, n, m, k)
	s.lk()
	s.evSeq++
	e := Ev{Seq: s.evSeq, Step: s.step, T: time.Since(s.start), G: -1, Kind: kind, A: a, B: b, N: n, M: m, K: k}
	if g != nil {
		e.G = g.id
		s.addEvent(line)
	} else {
		e.Foreign = true
	}
	s.history.add(e)
	seq := s.evSeq
	s.ulk()
	return seq
}

// GID returns the logical id of the calling simulated goroutine (-1 if unknown).
//
//go:norace
func GID() int {
	s := current()
	if s == nil {
		return -1
	}
	g := s.lookup()
	if g == nil {
		return -1
	}
	return g.id
}

// Signal is a one-shot latch usable from harness code without adding
// scheduling points on the firing side.
type Signal struct {
	ch    chan struct{}
	fired atomic.Bool
}

// NewSignal allocates a Signal (must be called inside the bubble).
func NewSignal() *Signal { return &Signal{ch: make(chan struct{})} }

// Fire closes the latch (idempotent). Callers are serialised by the scheduler.
func (s *Signal) Fire() {
	if s.fired.CompareAndSwap(false, true) {
		close(s.ch)
	}
}

// Fired reports whether Fire has been called.
func (s *Signal) Fired() bool { return s.fired.Load() }

// C returns the channel closed by Fire.
func (s *Signal) C() <-chan struct{} { return s.ch }
