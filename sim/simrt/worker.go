package simrt

import (
	"bufio"
	"encoding/json"
	"fmt"
	"math/rand"
	"os"
	"runtime"
	"strconv"
	"strings"
	"testing"
	"testing/cryptotest"
	"time"
)

// Sched is the schedule part of a scenario: everything the scheduler needs
// besides the decision list.
type Sched struct {
	Seed      int64   `json:"seed"`
	SelSeed   uint64  `json:"sel_seed"`
	Strategy  string  `json:"strategy"`
	StallProb float64 `json:"stall_prob"`
	MaxSteps  int64   `json:"max_steps"`
	HorizonS  int64   `json:"horizon_s"`
	// Focus lists site-name fragments (file names of the mechanism under check) that the
	// "starve" strategy prefers when it chooses where to delay goroutines.
	Focus []string `json:"focus,omitempty"`
}

// Scenario is a complete, replayable description of one run (minus decisions).
type Scenario struct {
	World    string          `json:"world"`
	Property string          `json:"property"`
	GenSeed  int64           `json:"gen_seed"`
	Sched    Sched           `json:"sched"`
	Body     json.RawMessage `json:"body"`
}

// Spec is what the driver hands to a worker process.
type Spec struct {
	World    string `json:"world"`
	Property string `json:"property"`
	Tier     string `json:"tier"`
	// generation mode
	SeedFrom  int64 `json:"seed_from"`
	SeedCount int64 `json:"seed_count"`
	// schedule seeds tried per scenario in search mode (shrinking)
	Scenario   *Scenario `json:"scenario,omitempty"`
	SchedSeeds []int64   `json:"sched_seeds,omitempty"`
	// replay mode
	Decisions []int32 `json:"decisions,omitempty"`
	UseReplay bool    `json:"use_replay,omitempty"`
	// output
	Out        string `json:"out"`
	WithEvents bool   `json:"with_events,omitempty"`
	WithTrace  bool   `json:"with_trace,omitempty"`
	WallBudget int64  `json:"wall_budget_s,omitempty"`
	KeepGoing  bool   `json:"keep_going,omitempty"`
}

// Line is one line of worker output (one run).
type Line struct {
	Seed       int64            `json:"seed"`
	Scenario   *Scenario        `json:"scenario,omitempty"`
	Decisions  []int32          `json:"decisions,omitempty"`
	NDecisions int              `json:"n_decisions"`
	Violations []Violation      `json:"violations,omitempty"`
	Hash       string           `json:"hash"`
	Steps      int64            `json:"steps"`
	SimTimeNs  int64            `json:"sim_time_ns"`
	Counters   map[string]int64 `json:"counters,omitempty"`
	StepCap    bool             `json:"step_cap,omitempty"`
	Nontrivial bool             `json:"nontrivial,omitempty"`
	Abstract   []string         `json:"abstract,omitempty"`
	Events     []string         `json:"events,omitempty"`
	History    []Ev             `json:"history,omitempty"`
	Extra      json.RawMessage  `json:"extra,omitempty"`
	Foreign    int64            `json:"foreign,omitempty"`
	WallUs     int64            `json:"wall_us"`
	Done       bool             `json:"done,omitempty"` // trailer line
	SiteHits   map[string]int64 `json:"site_hits,omitempty"`
	Strategy   string           `json:"strategy,omitempty"`
	Goroutines int              `json:"goroutines,omitempty"`
}

// Outcome is what a world returns for one run.
type Outcome struct {
	Res        Result
	Violations []Violation // scheduler violations plus post-hoc oracle violations
	Nontrivial bool
	Abstract   []string
	Extra      any
}

// World is implemented by each simulated world.
type World interface {
	// Gen builds the body of a scenario from a seed.
	Gen(rng *rand.Rand, property, tier string) (body any, sched Sched)
	// Run executes one scenario.
	Run(t *testing.T, sc *Scenario, cfg Config) Outcome
}

var strategies = []string{"random", "random", "sticky", "sticky", "pct", "rr", "starve", "starve"}

// DefaultSched draws schedule parameters from rng.
func DefaultSched(rng *rand.Rand) Sched {
	s := Sched{
		Seed:     rng.Int63(),
		SelSeed:  rng.Uint64() | 1,
		Strategy: strategies[rng.Intn(len(strategies))],
		MaxSteps: 60000,
		HorizonS: 3600,
	}
	switch rng.Intn(4) {
	case 0:
		s.StallProb = 0.01
	case 1:
		s.StallProb = 0.03
	}
	if s.Strategy == "starve" && s.StallProb == 0 {
		s.StallProb = 0.002 // stalls are what lets a sleeper overtake a delayed goroutine
	}
	return s
}

var raceLogOff int64

// readRaceLog returns what the race detector has written to its log file
// (GORACE=log_path=...) since the last call.
func readRaceLog() string {
	for _, f := range strings.Fields(os.Getenv("GORACE")) {
		if p, ok := strings.CutPrefix(f, "log_path="); ok {
			data, err := os.ReadFile(fmt.Sprintf("%s.%d", p, os.Getpid()))
			if err != nil {
				return "(race log not readable: " + err.Error() + ")"
			}
			if raceLogOff > int64(len(data)) {
				raceLogOff = 0
			}
			s := string(data[raceLogOff:])
			raceLogOff = int64(len(data))
			if len(s) > 6000 {
				s = s[:6000] + "\n..."
			}
			return s
		}
	}
	return "(GORACE log_path not set)"
}

// WorkerMain is the body of the TestSimWorld function of a world.
func WorkerMain(t *testing.T, w World) {
	specPath := os.Getenv("SIM_SPEC")
	if specPath == "" {
		t.Skip("SIM_SPEC not set")
	}
	// One P: timers live in per-P heaps, and two timers with the same deadline that sit on
	// different Ps fire in an order nothing in the simulation decides (a goroutine blocked in a
	// select on both takes whichever comes first). With a single P the order is a function of
	// the sequence of timer operations, which the decision stream fixes. The simulated
	// goroutines run one at a time anyway; parallelism comes from running 16 worker processes.
	// SIM_PROCS overrides (the selftest uses it to show what happens otherwise).
	procs := 1
	if v, err := strconv.Atoi(os.Getenv("SIM_PROCS")); err == nil && v > 0 {
		procs = v
	}
	runtime.GOMAXPROCS(procs)
	b, err := os.ReadFile(specPath)
	if err != nil {
		t.Fatal(err)
	}
	var spec Spec
	if err = json.Unmarshal(b, &spec); err != nil {
		t.Fatal(err)
	}
	f, err := os.OpenFile(spec.Out, os.O_CREATE|os.O_WRONLY|os.O_APPEND, 0o644)
	if err != nil {
		t.Fatal(err)
	}
	bw := bufio.NewWriter(f)
	emit := func(l *Line) {
		data, _ := json.Marshal(l)
		bw.Write(data)
		bw.WriteByte('\n')
		bw.Flush()
	}
	started := time.Now()
	sites := map[string]int64{}

	runOne := func(sc *Scenario, seedLabel int64, decisions []int32, useReplay bool) bool {
		cfg := Config{
			Seed: sc.Sched.Seed, SelSeed: sc.Sched.SelSeed, Strategy: sc.Sched.Strategy,
			StallProb: sc.Sched.StallProb, MaxSteps: sc.Sched.MaxSteps, Focus: sc.Sched.Focus,
			Horizon: time.Duration(sc.Sched.HorizonS) * time.Second,
			Replay:  decisions, UseReplay: useReplay, LogEvents: spec.WithEvents,
		}
		cryptotest.SetGlobalRandom(t, uint64(sc.GenSeed)^0x5eed)
		t0 := time.Now()
		racesBefore := RaceErrors()
		out := w.Run(t, sc, cfg)
		if n := RaceErrors() - racesBefore; n > 0 {
			out.Violations = append(out.Violations, Violation{Property: "C40", Clause: "data-race",
				Detail: fmt.Sprintf("%d data race report(s) during this run:\n%s", n, readRaceLog())})
		}
		l := &Line{
			Seed: seedLabel, Hash: out.Res.Hash, Steps: out.Res.Steps, SimTimeNs: int64(out.Res.SimTime),
			Counters: out.Res.Counters, StepCap: out.Res.StepCap, Nontrivial: out.Nontrivial,
			Abstract: out.Abstract, Foreign: out.Res.Foreign, WallUs: time.Since(t0).Microseconds(),
			NDecisions: len(out.Res.Decisions), Violations: out.Violations, Strategy: sc.Sched.Strategy,
			Goroutines: out.Res.Goroutines,
		}
		for k, v := range out.Res.SiteHits {
			sites[k] += v
		}
		if out.Extra != nil {
			l.Extra, _ = json.Marshal(out.Extra)
		}
		if len(out.Violations) > 0 || spec.WithTrace {
			l.Scenario = sc
			l.Decisions = out.Res.Decisions
			l.Events = out.Res.Events
			if spec.WithTrace {
				l.History = out.Res.History
			}
		} else if seedLabel%97 == 0 {
			l.Scenario = sc // sample
		}
		emit(l)
		return len(out.Violations) > 0
	}

	switch {
	case spec.Scenario != nil && (spec.UseReplay || len(spec.SchedSeeds) == 0):
		runOne(spec.Scenario, spec.Scenario.GenSeed, spec.Decisions, spec.UseReplay)
	case spec.Scenario != nil:
		for _, ss := range spec.SchedSeeds {
			sc := *spec.Scenario
			r := rand.New(rand.NewSource(ss))
			sc.Sched.Seed = r.Int63()
			sc.Sched.SelSeed = r.Uint64() | 1
			if runOne(&sc, ss, nil, false) {
				break
			}
		}
	default:
		for i := int64(0); i < spec.SeedCount; i++ {
			if spec.WallBudget > 0 && time.Since(started) > time.Duration(spec.WallBudget)*time.Second {
				break
			}
			seed := spec.SeedFrom + i
			rng := rand.New(rand.NewSource(seed))
			body, sched := w.Gen(rng, spec.Property, spec.Tier)
			raw, err2 := json.Marshal(body)
			if err2 != nil {
				t.Fatal(err2)
			}
			sc := &Scenario{World: spec.World, Property: spec.Property, GenSeed: seed, Sched: sched, Body: raw}
			if runOne(sc, seed, nil, false) && !spec.KeepGoing {
				// a violated run may leave goroutines behind: stop this process
				break
			}
		}
	}
	emit(&Line{Done: true, SiteHits: sites})
	bw.Flush()
	f.Close()
	fmt.Println("worker done")
	os.Exit(0)
}
