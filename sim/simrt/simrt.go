// Package simrt is the deterministic cooperative scheduler used by the /verif
// simulation worlds. It is mapped into the mediamtx module at
// internal/zzsim/simrt through `go build -overlay`; it is never part of a
// shipped build.
//
// Every simulated goroutine parks in Yield (or Enter / a lock wait) and is
// released one at a time by the scheduler loop, which runs on the root
// goroutine of a testing/synctest bubble and takes every decision from a
// single decision stream (PRNG or replay list).
package simrt

import (
	"fmt"
	"hash/fnv"
	"os"
	"reflect"
	"runtime"
	"runtime/debug"
	"sort"
	"strconv"
	"strings"
	"sync"
	"testing"
	"testing/synctest"
	"time"
	"unsafe"
)

type gstate int32

const (
	gRunning  gstate = iota
	gParked          // runnable, waits for the scheduler to release it
	gLockWait        // waits for a sim mutex
	gDone
)

// G is a simulated goroutine.
type G struct {
	id       int
	name     string
	wake     chan struct{}
	state    gstate
	site     string
	lastRun  int64
	waitOn   any
	waitKind int // 1 = write lock, 2 = read lock
	goid     uint64
	prio     int64
	daemon   bool
	sim      *Sim
	settle   bool // waiting in Settle: runs only when nobody else can
	starved  bool // strategy "starve": delayed until nobody else can run
	stalls   int  // clock stalls spent while starved at the current site
}

// Violation is one oracle failure.
type Violation struct {
	Property string `json:"property"`
	Clause   string `json:"clause"`
	Detail   string `json:"detail"`
	Step     int64  `json:"step"`
	SimTime  string `json:"sim_time"`
}

// Config configures one run.
type Config struct {
	Seed      int64   // PRNG seed for the decision stream (ignored when Replay != nil)
	SelSeed   uint64  // seed for the runtime select order
	Replay    []int32 // explicit decision list (replay mode)
	UseReplay bool
	Strategy  string // "random", "sticky", "pct", "rr"
	StallProb float64
	MaxSteps  int64
	Horizon   time.Duration // max simulated duration
	LogEvents bool
	Focus     []string // site-name fragments preferred by the "starve" strategy
}

// Result is what a run returns.
type Result struct {
	Violations []Violation
	Decisions  []int32
	Hash       string
	Steps      int64
	SimTime    time.Duration
	Events     []string
	SiteHits   map[string]int64
	Counters   map[string]int64
	StepCap    bool
	Foreign    int64
	Stuck      []string
	History    []Ev
	Goroutines int
}

// Sim is the state of one run.
type Sim struct {
	cfg Config

	mu        sync.Mutex
	gs        []*G
	notify    chan struct{}
	nextGID   int
	scanFrom  int
	active    []*G
	nLockWait int

	rng       *prng
	decisions []int32
	replayPos int

	step     int64
	start    time.Time
	events   chunkList[string]
	hash     uint64
	siteHits strCounter
	counters strCounter

	violations []Violation
	aborted    bool
	mainDone   bool
	foreign    int64
	stepCap    bool
	stuck      []string

	lastG       *G
	pctPoints   map[int64]bool
	starveMod   uint64 // strategy "starve": sites whose hash is starveSel modulo starveMod delay their goroutine
	starveSel   uint64
	shortStall  bool
	calm        bool // no more scheduler-made faults (stalls, delayed goroutines)
	lastParked  int  // size of the parked set at the last release
	jitterN     int64
	deadlines   []int64 // open-addressing set (0 = free) of the instants (ns since start) at which a timer made through Jitter fires; a slice, not a map: the race detector sees map accesses even in norace functions
	starveOrder int
	starveFocus []string
	starveSub   string // development aid: SIM_STARVE_SITE=<substring> starves exactly the matching sites

	touch     anyTable
	touchNext int64
	seqNext   int64
	evSeq     int64
	history   chunkList[Ev]

	lockWriters   anyTable // pending writers per RWMutex
	onStep        [8]func()
	nOnStep       int
	deadlineHints []time.Time
	quiet         bool
}

var cur *Sim

//go:norace
func current() *Sim { return cur }

// Now returns the simulated time elapsed since the start of the run.
//
//go:norace
func Since() time.Duration {
	s := current()
	if s == nil {
		return 0
	}
	return time.Since(s.start)
}

// Active reports whether a simulation is running.
//
//go:norace
func Active() bool { return current() != nil }

//go:norace
func (s *Sim) lookup() *G {
	// the runtime patch keeps one pointer per goroutine (children inherit it from
	// their parent, hence the goroutine id check)
	p := runtime.SimGetLocal()
	if p == nil {
		return nil
	}
	g := (*G)(p)
	if g.sim != s || g.goid != runtime.SimGoid() {
		return nil
	}
	return g
}

// Yield is a scheduling point: the calling goroutine parks until the
// scheduler releases it. It is a no-op outside a simulation or when called
// by a goroutine that the simulator does not know.
//
//go:norace
func Yield(site string) {
	s := current()
	if s == nil {
		return
	}
	g := s.lookup()
	if g == nil {
		s.lk()
		s.foreign++
		s.ulk()
		return
	}
	g.park(s, site, gParked)
}

//go:norace
func (g *G) park(s *Sim, site string, st gstate) {
	s.lk()
	g.state = st
	if st == gLockWait {
		s.nLockWait++
	}
	g.site = site
	s.siteHits.add(site, 1)
	if s.starveMod != 0 && st != gLockWait && !s.calm {
		// FNV-1a of the site name
		h := uint64(14695981039346656037)
		for i := 0; i < len(site); i++ {
			h = (h ^ uint64(site[i])) * 1099511628211
		}
		sel := (h>>7)%s.starveMod == s.starveSel
		if sel && len(s.starveFocus) > 0 {
			sel = false
			for _, f := range s.starveFocus {
				if strings.Contains(site, f) {
					sel = true
				}
			}
		}
		if (s.starveSub == "" && sel) || (s.starveSub != "" && strings.Contains(site, s.starveSub)) {
			g.starved = true
			g.stalls = 0
		}
	}
	s.ulk()
	// the scheduler's own hand-offs must not create happens-before edges
	// between simulated goroutines: hide them from the race detector
	raceDisable()
	select {
	case s.notify <- struct{}{}:
	default:
	}
	<-g.wake
	raceEnable()
}

// lk / ulk lock the simulator state. Between lk and ulk the goroutine ignores
// race-detector synchronisation events, so the simulator creates no
// happens-before edge between simulated goroutines. Code between lk and ulk
// must not call library code that relies on such events (sync.Pool users
// like fmt): strings are built with strconv / concatenation there.
//
//go:norace
func (s *Sim) lk() {
	raceDisable()
	s.mu.Lock()
}

//go:norace
func (s *Sim) ulk() {
	s.mu.Unlock()
	raceEnable()
}

// BeforeGo reserves the logical id of a goroutine that is about to be
// spawned; the child passes it to Enter.
//
//go:norace
func BeforeGo(site string) int {
	s := current()
	if s == nil {
		return -1
	}
	s.lk()
	id := s.nextGID
	s.nextGID++
	if len(s.gs) == cap(s.gs) {
		s.ulk()
		panic("simrt: too many goroutines in one run")
	}
	g := &G{id: id, name: site, wake: make(chan struct{}), state: gRunning, sim: s}
	g.prio = int64(hash64(uint64(s.cfg.Seed), uint64(id)) >> 1)
	s.gs = append(s.gs, g)
	s.ulk()
	return id
}

// Enter registers the calling goroutine under the logical id reserved by
// BeforeGo and parks it at once.
//
//go:norace
func Enter(id int) {
	s := current()
	if s == nil || id < 0 {
		return
	}
	goid := runtime.SimGoid()
	s.lk()
	g := s.gs[id]
	g.goid = goid
	s.ulk()
	runtime.SimSetLocal(unsafe.Pointer(g))
	g.park(s, "enter:"+g.name, gParked)
}

// Exit unregisters the calling goroutine. A panic of the goroutine is
// recorded as a violation instead of killing the process.
//
//go:norace
func Exit() {
	s := current()
	r := recover()
	if s == nil {
		if r != nil {
			panic(r)
		}
		return
	}
	g := s.lookup()
	if r != nil {
		st := string(debug.Stack())
		s.violate("*", "panic", fmt.Sprintf("goroutine %s panicked: %v\n%s", gname(g), r, trimStack(st)))
	}
	if g != nil {
		s.lk()
		g.state = gDone
		s.ulk()
		runtime.SimSetLocal(nil)
	}
}

//go:norace
func gname(g *G) string {
	if g == nil {
		return "?"
	}
	return fmt.Sprintf("g%d(%s)", g.id, g.name)
}

func trimStack(st string) string {
	lines := strings.Split(st, "\n")
	var out []string
	for _, l := range lines {
		if strings.Contains(l, "zzsim/simrt") || strings.Contains(l, "runtime/debug") {
			continue
		}
		out = append(out, l)
		if len(out) > 40 {
			break
		}
	}
	return strings.Join(out, "\n")
}

// Go spawns a simulated goroutine from harness code.
func Go(name string, f func()) {
	id := BeforeGo(name)
	go func() {
		Enter(id)
		defer Exit()
		f()
	}()
}

// GoDaemon spawns a simulated goroutine that may still be alive at the end of the run.
func GoDaemon(name string, f func()) {
	id := BeforeGo(name)
	if s := current(); s != nil && id >= 0 {
		s.lk()
		s.gs[id].daemon = true
		s.ulk()
	}
	go func() {
		Enter(id)
		defer Exit()
		f()
	}()
}

// Sleep sleeps on the simulated clock and parks afterwards.
func Sleep(d time.Duration) {
	Yield("sleep")
	time.Sleep(d)
	Yield("sleep.post")
}

// ---------------------------------------------------------------------------
// violations, events, counters

//go:norace
func (s *Sim) violate(prop, clause, detail string) {
	s.lk()
	if len(s.violations) < cap(s.violations) {
		s.violations = append(s.violations, Violation{
			Property: prop, Clause: clause, Detail: detail, Step: s.step,
			SimTime: time.Since(s.start).String(),
		})
	}
	s.ulk()
}

// Violate records a violation of property prop.
//
//go:norace
func Violate(prop, clause, format string, args ...any) {
	s := current()
	if s == nil {
		return
	}
	s.violate(prop, clause, fmt.Sprintf(format, args...))
}

// Event appends a line to the event log (part of the run hash).
//
//go:norace
func Event(format string, args ...any) {
	s := current()
	if s == nil {
		return
	}
	line := fmt.Sprintf(format, args...)
	s.lk()
	s.addEvent(line)
	s.ulk()
}

//go:norace
func (s *Sim) addEvent(line string) {
	line = strconv.FormatInt(s.step, 10) + " " + time.Since(s.start).String() + " " + line
	h := fnv.New64a()
	h.Write([]byte(line))
	s.hash = s.hash*1099511628211 ^ h.Sum64()
	if s.cfg.LogEvents {
		s.events.add(line)
	}
}

// Count increments a named counter (fault kinds fired, probes hit).
//
//go:norace
func Count(name string, n int64) {
	s := current()
	if s == nil {
		return
	}
	s.lk()
	s.counters.add(name, n)
	s.ulk()
}

// Step returns the current scheduler step (global event sequence number).
//
//go:norace
func Step() int64 {
	s := current()
	if s == nil {
		return 0
	}
	return s.step
}

// Seq returns a strictly increasing global sequence number usable as an
// invoke/return stamp.
//
//go:norace
func Seq() int64 {
	s := current()
	if s == nil {
		return 0
	}
	s.lk()
	s.seqNext++
	v := s.seqNext
	s.ulk()
	return v
}

// OnStep registers a function run in scheduler context after every step,
// when every simulated goroutine is parked or blocked.
func OnStep(f func()) {
	s := current()
	if s == nil {
		return
	}
	s.lk()
	if s.nOnStep < len(s.onStep) {
		s.onStep[s.nOnStep] = f
		s.nOnStep++
	}
	s.ulk()
}

// Calm ends the scheduler-made faults for the rest of the run: no more clock stalls while
// goroutines are runnable, no more delayed goroutines. A harness calls it when its workload is
// over, before the quiet period that precedes its final checks ("once faults stop ...").
//
//go:norace
func Calm() {
	s := current()
	if s == nil {
		return
	}
	s.lk()
	s.calm = true
	s.ulk()
}

// Settle returns when no other simulated goroutine is runnable (all are blocked or done): the
// system has digested everything that was in flight at this instant.
//
//go:norace
func Settle() {
	s := current()
	if s == nil {
		return
	}
	g := s.lookup()
	if g == nil {
		return
	}
	for i := 0; i < 1000000; i++ {
		s.lk()
		g.settle = true
		s.ulk()
		Yield("settle")
		s.lk()
		g.settle = false
		others := s.lastParked - 1
		s.ulk()
		if others <= 0 {
			return
		}
	}
}

// Jitter is inserted by goinst (option timer_jitter) around the duration of every timer and
// ticker the instrumented code creates: it adds a run-unique amount below one millisecond, so
// that no two timers share a deadline. The Go runtime fires timers with equal deadlines in an
// order that depends on the internal state of its timer heaps, which nothing in the simulation
// controls; a goroutine blocked in a select on two such timers would take either case.
//
// The amount is a hash of (select seed, call number), not a linear function of the call number:
// with d + n*c the k-th tick of a ticker created by call a coincides with a timer of k times the
// period created at the same instant by call k*a (seen in the HLS muxer: 10 s clean-up ticker,
// call 1, second tick = 20 s activity timer, call 2). On top of that every deadline handed out
// is remembered, and a new timer whose deadline (for a ticker: whose first ticks) would equal a
// remembered one gets the next free amount, so ties between timers made here cannot occur at all.
//
//go:norace
func Jitter(d time.Duration) time.Duration { return jitterFor(d, false) }

// JitterTick is Jitter for the period of a ticker.
//
//go:norace
func JitterTick(d time.Duration) time.Duration { return jitterFor(d, true) }

const (
	jitterRange = 999983
	jitterTicks = 2048 // ticks of a ticker whose instants are kept free of other deadlines
)

const dlSize = 1 << 16

//go:norace
func dlSlot(v int64) int { return int(hash64(0x9e3779b97f4a7c15, uint64(v)) & (dlSize - 1)) }

//go:norace
func dlHas(t []int64, v int64) bool {
	for i, n := dlSlot(v), 0; n < dlSize; i, n = (i+1)&(dlSize-1), n+1 {
		if t[i] == 0 {
			return false
		}
		if t[i] == v {
			return true
		}
	}
	return false
}

//go:norace
func dlAdd(t []int64, v int64) {
	for i, n := dlSlot(v), 0; n < dlSize/2; i, n = (i+1)&(dlSize-1), n+1 {
		if t[i] == 0 || t[i] == v {
			t[i] = v
			return
		}
	}
}

//go:norace
func jitterFor(d time.Duration, tick bool) time.Duration {
	s := current()
	if s == nil || d <= 0 {
		return d
	}
	s.lk()
	defer s.ulk()
	s.jitterN++
	if s.deadlines == nil {
		s.deadlines = make([]int64, dlSize)
	}
	now := int64(time.Since(s.start))
	j := int64(hash64(s.cfg.SelSeed|1, uint64(s.jitterN)) % jitterRange)
	nt := int64(1)
	if tick {
		nt = jitterTicks
	}
	for try := 0; try < jitterRange; try++ {
		p := int64(d) + 1 + j
		free := true
		for k := int64(1); k <= nt && free; k++ {
			free = !dlHas(s.deadlines, now+k*p)
		}
		if free {
			for k := int64(1); k <= nt; k++ {
				dlAdd(s.deadlines, now+k*p)
			}
			return time.Duration(p)
		}
		s.counters.add("sim.jitter-bump", 1) // not a fault: reported under coverage.counters only
		j = (j + 1) % jitterRange
	}
	return d + time.Duration(1+j)
}

// MainDone tells the scheduler that the harness main goroutine has finished.
//
//go:norace
func MainDone() {
	s := current()
	if s == nil {
		return
	}
	s.lk()
	s.mainDone = true
	s.ulk()
}

// Aborted reports whether a violation has been recorded (harness loops may stop early).
//
//go:norace
func Aborted() bool {
	s := current()
	if s == nil {
		return false
	}
	s.lk()
	v := len(s.violations) > 0
	s.ulk()
	return v
}

// ---------------------------------------------------------------------------
// decision stream

func hash64(a, b uint64) uint64 {
	x := a*0x9E3779B97F4A7C15 + b + 0x632BE59BD9B4E019
	x ^= x >> 30
	x *= 0xBF58476D1CE4E5B9
	x ^= x >> 27
	x *= 0x94D049BB133111EB
	x ^= x >> 31
	return x
}

// decide returns a value in [0,n). gen is called in PRNG mode.
//
//go:norace
func (s *Sim) decide(n int, gen func() int) int {
	if n <= 1 {
		return 0
	}
	var v int
	if s.cfg.UseReplay {
		if s.replayPos < len(s.cfg.Replay) {
			v = int(s.cfg.Replay[s.replayPos])
			s.replayPos++
			if v < 0 {
				v = 0
			}
			v %= n
		} else {
			v = 0
		}
	} else {
		v = gen()
	}
	if len(s.decisions) < cap(s.decisions) {
		s.decisions = append(s.decisions, int32(v))
	}
	return v
}

// Choose draws a value in [0,n) from the decision stream. 0 must be the
// benign choice (it is the default once a replay list is exhausted).
// Must be called from a simulated goroutine (serialised by the scheduler).
//
//go:norace
func Choose(tag string, n int) int {
	s := current()
	if s == nil {
		return 0
	}
	s.lk()
	v := s.decide(n, func() int { return s.rng.Intn(n) })
	s.addEvent("choose " + tag + "=" + strconv.Itoa(v))
	s.ulk()
	return v
}

// Flip returns true with probability p (decision 1), false otherwise.
//
//go:norace
func Flip(tag string, p float64) bool {
	s := current()
	if s == nil {
		return false
	}
	s.lk()
	v := s.decide(2, func() int {
		if s.rng.Float64() < p {
			return 1
		}
		return 0
	})
	if v == 1 {
		s.addEvent("flip " + tag)
	}
	s.ulk()
	return v == 1
}

// HintDeadline tells the scheduler about an instant worth racing against.
func HintDeadline(t time.Time) {
	s := current()
	if s == nil {
		return
	}
	s.lk()
	s.deadlineHints = append(s.deadlineHints, t)
	s.ulk()
}

// ---------------------------------------------------------------------------
// map iteration

// Touch gives k a logical object id (first call wins) so that maps keyed by
// pointers or interfaces can be iterated in a reproducible order.
//
//go:norace
func Touch(k any) {
	s := current()
	if s == nil {
		return
	}
	s.lk()
	if _, ok := s.touch.get(k); !ok {
		s.touchNext++
		s.touch.set(k, s.touchNext)
	}
	s.ulk()
}

// ObjID returns the logical id of k (0 if unknown).
//
//go:norace
func ObjID(k any) int64 {
	s := current()
	if s == nil {
		return 0
	}
	s.lk()
	v, _ := s.touch.get(k)
	s.ulk()
	return v
}

// MapKeys returns the keys of m in an order decided by the decision stream
// (canonical order first, then a seeded permutation).
func MapKeys[M ~map[K]V, K comparable, V any](m M, site string) []K {
	keys := make([]K, 0, len(m))
	for k := range m {
		keys = append(keys, k)
	}
	s := current()
	if s == nil || len(keys) < 2 {
		return keys
	}
	orderKeys(s, keys, site)
	return keys
}

//go:norace
func orderKeys[K comparable](s *Sim, keys []K, site string) {
	type kv struct {
		k    K
		s    string
		i    int64
		kind int
	}
	kvs := make([]kv, len(keys))
	s.lk()
	unknown := 0
	for i, k := range keys {
		e := kv{k: k}
		switch v := any(k).(type) {
		case string:
			e.kind, e.s = 1, v
		case int:
			e.kind, e.i = 2, int64(v)
		case int64:
			e.kind, e.i = 2, v
		case uint64:
			e.kind, e.i = 2, int64(v)
		case int32:
			e.kind, e.i = 2, int64(v)
		case uint32:
			e.kind, e.i = 2, int64(v)
		case uint16:
			e.kind, e.i = 2, int64(v)
		case uint8:
			e.kind, e.i = 2, int64(v)
		case [16]byte:
			e.kind, e.s = 1, string(v[:])
		default:
			id, ok := s.touch.get(any(k))
			if !ok {
				if st, ok2 := any(k).(fmt.Stringer); ok2 && isValueStringer(any(k)) {
					e.kind, e.s = 1, st.String()
					break
				}
				unknown++
				s.touchNext++
				id = s.touchNext
				s.touch.set(any(k), id)
			}
			e.kind, e.i = 3, id
		}
		kvs[i] = e
	}
	if unknown > 1 {
		// more than one key without a logical id: their relative order would
		// depend on Go's map iteration order. Infrastructure error.
		s.violations = append(s.violations[:len(s.violations):cap(s.violations)-1], Violation{Property: "!", Clause: "untouched-map-keys",
			Detail: strconv.Itoa(unknown) + " keys without logical id at " + site, Step: s.step})
	}
	sort.SliceStable(kvs, func(a, b int) bool {
		if kvs[a].kind != kvs[b].kind {
			return kvs[a].kind < kvs[b].kind
		}
		if kvs[a].kind == 1 {
			return kvs[a].s < kvs[b].s
		}
		return kvs[a].i < kvs[b].i
	})
	// one decision selects the permutation; 0 = canonical order
	n := len(kvs)
	nperm := 1
	for i := 2; i <= n && nperm < 720; i++ {
		nperm *= i
	}
	p := s.decide(nperm, func() int {
		if s.rng.Intn(2) == 0 {
			return 0
		}
		return s.rng.Intn(nperm)
	})
	s.ulk()
	if p != 0 {
		// decode permutation index (Lehmer code) over the first min(n,6) positions
		idx := p
		m := n
		if m > 6 {
			m = 6
		}
		for i := 0; i < m-1; i++ {
			f := 1
			for j := 2; j <= m-1-i; j++ {
				f *= j
			}
			c := idx / f
			idx %= f
			if c != 0 {
				e := kvs[i+c]
				copy(kvs[i+1:i+c+1], kvs[i:i+c])
				kvs[i] = e
			}
		}
	}
	for i := range kvs {
		keys[i] = kvs[i].k
	}
}

func isValueStringer(k any) bool {
	switch k.(type) {
	case fmt.Stringer:
		// only trust value types (e.g. uuid.UUID); pointers print addresses
		return reflect.TypeOf(k).Kind() != reflect.Pointer
	}
	return false
}

// ---------------------------------------------------------------------------
// locks

type tryLocker interface {
	TryLock() bool
	Unlock()
}

type tryRLocker interface {
	TryRLock() bool
	RUnlock()
}

// Lock acquires mu (a *sync.Mutex or *sync.RWMutex) under scheduler control.
//
//go:norace
func Lock(mu tryLocker, site string) {
	s := current()
	if s == nil {
		lockReal(mu)
		return
	}
	g := s.lookup()
	if g == nil {
		lockReal(mu)
		return
	}
	Yield(site)
	for {
		if mu.TryLock() {
			return
		}
		s.lk()
		g.waitOn = mu
		g.waitKind = 1
		lw, _ := s.lockWriters.get(mu)
		s.lockWriters.set(mu, lw+1)
		s.ulk()
		g.park(s, site+".wait", gLockWait)
		s.lk()
		lw, _ = s.lockWriters.get(mu)
		s.lockWriters.set(mu, lw-1)
		g.waitOn = nil
		s.ulk()
	}
}

func lockReal(mu tryLocker) {
	switch m := mu.(type) {
	case *sync.Mutex:
		m.Lock()
	case *sync.RWMutex:
		m.Lock()
	default:
		for !mu.TryLock() {
			runtime.Gosched()
		}
	}
}

// Unlock releases mu and makes its waiters runnable.
//
//go:norace
func Unlock(mu tryLocker) {
	mu.Unlock()
	wakeWaiters(mu)
}

//go:norace
func wakeWaiters(mu any) {
	s := current()
	if s == nil {
		return
	}
	s.lk()
	if s.nLockWait > 0 {
		for _, g := range s.gs {
			if g.state == gLockWait && g.waitOn == mu {
				g.state = gParked
				s.nLockWait--
			}
		}
	}
	s.ulk()
}

// RLock acquires mu for reading; as with the real RWMutex a pending writer
// blocks new readers.
//
//go:norace
func RLock(mu *sync.RWMutex, site string) {
	s := current()
	if s == nil {
		mu.RLock()
		return
	}
	g := s.lookup()
	if g == nil {
		mu.RLock()
		return
	}
	Yield(site)
	for {
		s.lk()
		pending, _ := s.lockWriters.get(tryLocker(mu))
		s.ulk()
		if pending == 0 && mu.TryRLock() {
			return
		}
		s.lk()
		g.waitOn = tryLocker(mu)
		g.waitKind = 2
		s.ulk()
		g.park(s, site+".wait", gLockWait)
		s.lk()
		g.waitOn = nil
		s.ulk()
	}
}

// RUnlock releases a read lock.
//
//go:norace
func RUnlock(mu *sync.RWMutex) {
	mu.RUnlock()
	wakeWaiters(tryLocker(mu))
}

// WGWait waits for wg under scheduler control.
func WGWait(wg *sync.WaitGroup, site string) {
	Yield(site)
	wg.Wait()
	Yield(site + ".post")
}

// ---------------------------------------------------------------------------
// scheduler

// Run executes main as simulated goroutine 0 inside a synctest bubble and
// drives the schedule until main has finished and every simulated goroutine
// has exited (or a violation / cap stops the run).
func Run(t *testing.T, cfg Config, main func()) (res Result) {
	if cfg.MaxSteps == 0 {
		cfg.MaxSteps = 200000
	}
	if cfg.Horizon == 0 {
		cfg.Horizon = 24 * time.Hour
	}
	// The bubble is started from a helper goroutine: when the race detector has
	// reported something, the testing package aborts the goroutine that called
	// synctest.Test (runtime.Goexit); the result must survive that.
	done := make(chan struct{})
	var fatal any
	go func() {
		defer close(done)
		defer func() {
			r := recover()
			if r == nil {
				return
			}
			msg := fmt.Sprint(r)
			if !strings.Contains(msg, "deadlock: main bubble goroutine has exited") {
				fatal = r
				return
			}
			if len(res.Violations) > 0 || res.StepCap {
				// the run was aborted on purpose: goroutines are expected to be left behind
				return
			}
			buf := make([]byte, 1<<20)
			buf = buf[:runtime.Stack(buf, true)]
			var left []string
			for _, g := range strings.Split(string(buf), "\n\n") {
				if strings.Contains(g, "synctest bubble") && !strings.Contains(g, "simrt.Run") {
					if len(g) > 1500 {
						g = g[:1500]
					}
					left = append(left, g)
				}
			}
			if len(left) > 6 {
				left = left[:6]
			}
			res.Violations = append(res.Violations, Violation{Property: "C40", Clause: "goroutine-leak",
				Detail: "goroutines left blocked in the bubble after shutdown: " + msg + "\n" + strings.Join(left, "\n\n")})
		}()
		synctest.Test(t, func(t *testing.T) {
			res = runInBubble(cfg, main)
		})
	}()
	<-done
	if fatal != nil {
		panic(fatal)
	}
	return res
}

func runInBubble(cfg Config, main func()) Result {
	s := &Sim{
		cfg:        cfg,
		gs:         make([]*G, 0, 1<<17),
		decisions:  make([]int32, 0, int(cfg.MaxSteps)*3+4096),
		violations: make([]Violation, 0, 64),
		notify:     make(chan struct{}, 1),
		rng:        &prng{s: uint64(cfg.Seed)*2685821657736338717 + 1442695040888963407},
		start:      time.Now(),
		hash:       14695981039346656037,
	}
	if cfg.Strategy == "pct" {
		s.pctPoints = map[int64]bool{}
		d := 1 + s.rng.Intn(3)
		for i := 0; i < d; i++ {
			s.pctPoints[int64(s.rng.Intn(400))] = true
		}
	}
	if cfg.Strategy == "starve" {
		s.starveSub = os.Getenv("SIM_STARVE_SITE")
		s.starveMod = []uint64{8, 32, 32, 128}[s.rng.Intn(4)]
		s.starveSel = uint64(s.rng.Intn(int(s.starveMod)))
		s.starveOrder = s.rng.Intn(3)
		if len(cfg.Focus) > 0 && s.rng.Intn(2) == 0 {
			// delay goroutines inside the mechanism under check only
			s.starveFocus = cfg.Focus
			s.starveMod = []uint64{1, 1, 2, 4}[s.rng.Intn(4)]
			s.starveSel = uint64(s.rng.Intn(int(s.starveMod)))
		}
		if v := os.Getenv("SIM_STARVE_ORDER"); v != "" {
			s.starveOrder = int(v[0] - '0')
		}
	}
	cur = s
	defer func() { cur = nil; runtime.SimSetSelectSeed(0) }()
	// warm up lazily initialised library state from the root goroutine
	time.NewTimer(time.Hour).Stop()

	Go("main", func() {
		defer MainDone()
		main()
	})

	s.loop()

	res := Result{
		Violations: s.violations,
		Decisions:  s.decisions,
		Hash:       fmt.Sprintf("%016x", s.hash),
		Steps:      s.step,
		SimTime:    time.Since(s.start),
		Events:     s.events.slice(),
		SiteHits:   s.siteHits.toMap(),
		Counters:   s.counters.toMap(),
		StepCap:    s.stepCap,
		Foreign:    s.foreign,
		Stuck:      s.stuck,
		History:    s.history.slice(),
		Goroutines: len(s.gs),
	}
	return res
}

//go:norace
func (s *Sim) snapshot() (parked []*G, live int, lockWait int) {
	s.lk()
	// the scheduler keeps its own list of goroutines that have not finished
	// (only this goroutine touches it), so that a run with many short-lived
	// goroutines does not rescan all of them at every step
	for s.scanFrom < len(s.gs) {
		s.active = append(s.active, s.gs[s.scanFrom])
		s.scanFrom++
	}
	n := 0
	for _, g := range s.active {
		if g.state == gDone {
			continue
		}
		s.active[n] = g
		n++
		switch g.state {
		case gParked:
			parked = append(parked, g)
		case gLockWait:
			lockWait++
		}
		if !g.daemon {
			live++
		}
	}
	for i := n; i < len(s.active); i++ {
		s.active[i] = nil
	}
	s.active = s.active[:n]
	s.ulk()
	// fair order: least recently run first, then id
	sort.SliceStable(parked, func(a, b int) bool {
		if parked[a].lastRun != parked[b].lastRun {
			return parked[a].lastRun < parked[b].lastRun
		}
		return parked[a].id < parked[b].id
	})
	return
}

var stallDeltas = []time.Duration{
	time.Millisecond, 10 * time.Millisecond, 100 * time.Millisecond,
	time.Second, 5 * time.Second, 10 * time.Second, time.Minute,
}

//go:norace
func (s *Sim) loop() {
	for {
		raceDisable()
		synctest.Wait()
		raceEnable()
		s.lk()
		hooks := s.onStep[:s.nOnStep]
		nviol := len(s.violations)
		s.ulk()
		if nviol == 0 {
			for _, f := range hooks {
				f()
			}
		}
		s.lk()
		nviol = len(s.violations)
		mainDone := s.mainDone
		s.ulk()
		if nviol > 0 {
			s.aborted = true
			return
		}
		parked, live, lockWait := s.snapshot()
		if mainDone && live == 0 {
			return
		}
		if s.step >= s.cfg.MaxSteps {
			s.stepCap = true
			s.aborted = true
			return
		}
		elapsed := time.Since(s.start)
		if len(parked) == 0 {
			// nothing runnable: let the clock run to the next wake-up
			if elapsed >= s.cfg.Horizon {
				s.reportStuck(mainDone, lockWait)
				s.aborted = true
				return
			}
			s.idle(s.cfg.Horizon - elapsed)
			continue
		}
		s.step++
		// choose: index into parked, or len(parked) = stall
		n := len(parked)
		opts := n
		allowStall := s.cfg.StallProb > 0 && !mainDone && !s.calm
		s.lastParked = len(parked)
		if allowStall {
			opts = n + 1
		}
		v := s.decide(opts, func() int { return s.pick(parked, allowStall) })
		if v == n {
			// stall everybody while the clock runs
			nd := len(stallDeltas)
			if s.shortStall {
				nd = 4 // a delayed goroutine waits up to 1 s of simulated time per stall
				s.shortStall = false
			}
			d := s.decide(nd, func() int { return s.rng.Intn(nd) })
			s.lk()
			s.addEvent("stall " + stallDeltas[d].String())
			s.counters.add("sched.stall", 1)
			s.ulk()
			s.idle(stallDeltas[d])
			continue
		}
		g := parked[v]
		s.lk()
		s.addEvent("run g" + strconv.Itoa(g.id) + " " + g.site)
		g.state = gRunning
		g.lastRun = s.step
		g.starved = false
		s.ulk()
		if s.lastG != nil && s.lastG != g {
			s.lk()
			s.counters.add("sched.switch", 1)
			s.ulk()
		}
		s.lastG = g
		runtime.SimSetSelectSeed(hash64(s.cfg.SelSeed|1, uint64(s.step)) | 1)
		raceDisable()
		g.wake <- struct{}{}
		raceEnable()
	}
}

//go:norace
func (s *Sim) idle(d time.Duration) {
	// only the channel operations are hidden from the race detector: library
	// code (timers use sync.Once internally) must see its own synchronisation
	raceDisable()
	select {
	case <-s.notify:
	default:
	}
	raceEnable()
	if d <= 0 {
		d = time.Nanosecond
	}
	t := time.NewTimer(d)
	fired := false
	raceDisable()
	select {
	case <-s.notify:
	case <-t.C:
		fired = true
	}
	raceEnable()
	if !fired {
		t.Stop()
	}
}

//go:norace
func (s *Sim) pick(parked []*G, allowStall bool) int {
	n := len(parked)
	ns := 0
	for _, g := range parked {
		if !g.settle {
			ns++
		}
	}
	if ns > 0 && ns < n {
		// somebody waits in Settle: everybody else first
		k := s.rng.Intn(ns)
		for i, g := range parked {
			if !g.settle {
				if k == 0 {
					return i
				}
				k--
			}
		}
	}
	if allowStall && s.rng.Float64() < s.cfg.StallProb {
		return n
	}
	switch s.cfg.Strategy {
	case "rr":
		return 0
	case "sticky":
		if s.lastG != nil && s.rng.Float64() < 0.8 {
			for i, g := range parked {
				if g == s.lastG {
					return i
				}
			}
		}
		return s.rng.Intn(n)
	case "starve":
		// a goroutine parked at a selected site waits until nobody else can run; then, now and
		// again, even for the next timers (so that a sleeper can overtake it inside its operation)
		free := 0
		for _, g := range parked {
			if !g.starved {
				free++
			}
		}
		if free > 0 {
			k := s.rng.Intn(free)
			for i, g := range parked {
				if !g.starved {
					if k == 0 {
						return i
					}
					k--
				}
			}
		}
		// everybody is delayed: release the one delayed first, the one delayed last, or any
		best := 0
		switch s.starveOrder {
		case 0:
			for i, g := range parked {
				if g.lastRun < parked[best].lastRun {
					best = i
				}
			}
		case 1:
			for i, g := range parked {
				if g.lastRun > parked[best].lastRun {
					best = i
				}
			}
		default:
			best = s.rng.Intn(n)
		}
		if allowStall && parked[best].stalls < 4 && s.rng.Intn(4) != 0 {
			parked[best].stalls++
			s.shortStall = true
			return n
		}
		return best
	case "pct":
		if s.pctPoints[s.step] && s.lastG != nil {
			s.lastG.prio = -s.step // demote
		}
		best := 0
		for i, g := range parked {
			if g.prio > parked[best].prio {
				best = i
			}
		}
		return best
	default:
		return s.rng.Intn(n)
	}
}

//go:norace
func (s *Sim) reportStuck(mainDone bool, lockWait int) {
	s.lk()
	var lines []string
	for _, g := range s.gs {
		if g.state == gDone || g.daemon {
			continue
		}
		st := "blocked-after"
		if g.state == gLockWait {
			st = "lock-wait"
		}
		lines = append(lines, "g"+strconv.Itoa(g.id)+"("+g.name+") "+st+" "+g.site)
	}
	s.stuck = lines
	s.ulk()
	clause := "stuck"
	if mainDone {
		clause = "goroutine-leak"
	}
	s.violate("C40", clause, fmt.Sprintf("no goroutine runnable and no timer pending before the horizon; mainDone=%v lockWait=%d:\n%s",
		mainDone, lockWait, strings.Join(lines, "\n")))
}

// prng is a small splitmix64 generator. math/rand is not used because its
// state would be touched by instrumented library code from several goroutines.
type prng struct{ s uint64 }

//go:norace
func (r *prng) next() uint64 {
	r.s += 0x9E3779B97F4A7C15
	x := r.s
	x ^= x >> 30
	x *= 0xBF58476D1CE4E5B9
	x ^= x >> 27
	x *= 0x94D049BB133111EB
	x ^= x >> 31
	return x
}

//go:norace
func (r *prng) Intn(n int) int {
	if n <= 1 {
		return 0
	}
	return int(r.next() % uint64(n))
}

//go:norace
func (r *prng) Float64() float64 { return float64(r.next()>>11) / (1 << 53) }
