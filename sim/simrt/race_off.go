//go:build !race

package simrt

// RaceEnabled reports whether the binary was built with the race detector.
const RaceEnabled = false

func raceDisable() {}

func raceEnable() {}

// RaceErrors returns the number of races reported so far.
func RaceErrors() int { return 0 }
