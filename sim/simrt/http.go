package simrt

import "net/http"

// HTTPRoundTrip, when set by a world, stands for the network and the remote
// HTTP peers: every http.Client literal of the instrumented packages sends
// its requests through it instead of its own transport.
var HTTPRoundTrip func(req *http.Request) (*http.Response, error)

type simTransport struct{}

func (simTransport) RoundTrip(req *http.Request) (*http.Response, error) {
	return HTTPRoundTrip(req)
}

// HTTPTransport is inserted by goinst around the Transport of http.Client literals.
func HTTPTransport(inner http.RoundTripper) http.RoundTripper {
	if HTTPRoundTrip == nil {
		return inner
	}
	return simTransport{}
}
